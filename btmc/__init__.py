"""btmc - bounded exhaustive exploration ("model checking") of pmorissette/bt.

See /verif/DESIGN.md.  Run with /venv/bin/python:

    /venv/bin/python -m btmc.check C01 --tier quick
"""
