"""Operation alphabets for the TreeDriver, ordered simplest-first (DESIGN 1.3, 5)."""

R = []  # path of the root


def base_ops(shape):
    """The C01 alphabet: shorts, closes that make a security flat, re-opening a
    skipped security, allocating inside an unfunded sub-strategy, batches."""
    ops = [["next"], ["update"], ["adjust", R, 16.0, True], ["adjust", R, -8.0, True]]
    if shape in ("T1", "T1lazy", "T1c"):
        for c in ("a", "b"):
            ops += [["alloc", R, c, 16.0], ["alloc", R, c, -16.0], ["alloc", R, c, 5.0]]
            ops += [["reb", R, c, 0.5], ["reb", R, c, -0.25], ["close", R, c], ["transact", R, c, 3.0]]
        ops += [["flatten", R]]
        ops += [["batch", [["alloc", R, "a", 16.0], ["alloc", R, "b", -8.0]]]]
        ops += [["batch", [["close", R, "a"], ["rebbase", R, "b", 0.5, 64.0]]]]
        ops += [["algos", R, {"weights": {}}, "Rebalance"]]  # an empty target list closes everything
        ops += [["algos", R, {}, "CapitalFlow", [16.0]]]  # capital paid in by the stock algo
        ops += [["sectransact", ["a"], 3.0, None]]  # a fill booked on the security itself (the parent only hears of it through its cash)
    elif shape == "T2":
        ops += [["alloc", R, "s1", 32.0], ["alloc", R, "s2", 16.0], ["alloc", R, "s1", -8.0]]
        ops += [["alloc", ["s1"], "a", 8.0], ["alloc", ["s1"], "b", -4.0], ["alloc", ["s2"], "a", 8.0], ["alloc", R, "b", 8.0]]
        ops += [["reb", R, "s1", 0.5], ["reb", ["s1"], "a", 0.5], ["reb", R, "s2", 0.25], ["reb", ["s1"], "b", -0.25]]
        ops += [["close", R, "s1"], ["close", ["s1"], "a"], ["flatten", ["s1"]], ["flatten", R]]
        ops += [["allocself", ["s1"], 8.0]]
        ops += [["batch", [["alloc", ["s1"], "a", 8.0], ["alloc", ["s2"], "a", -4.0]]]]
    elif shape == "T3":
        ops += [["alloc", R, "s1", 32.0], ["alloc", ["s1"], "s11", 16.0], ["alloc", ["s1", "s11"], "a", 8.0], ["alloc", ["s1"], "b", 8.0], ["alloc", ["s1"], "b", -4.0]]
        ops += [["reb", ["s1"], "b", 0.5], ["reb", ["s1", "s11"], "a", 0.5], ["reb", ["s1"], "s11", 0.5]]
        ops += [["close", R, "s1"], ["close", ["s1"], "b"], ["close", ["s1"], "s11"], ["flatten", ["s1"]], ["flatten", R]]
        ops += [["allocself", ["s1"], 8.0]]
    else:
        raise KeyError(shape)
    return ops


def cost_ops(shape):
    """C02/C07 alphabet: several trades per security per date, custom prices,
    non-flow adjustments, compound operations."""
    ops = [["next"], ["update"], ["adjust", R, 16.0, True], ["adjust", R, -8.0, True], ["adjust", R, 4.0, False], ["adjust", R, -2.0, False]]
    if shape in ("T1", "T1lazy", "T1c"):
        for c in ("a", "b"):
            ops += [["alloc", R, c, 16.0], ["alloc", R, c, -16.0], ["reb", R, c, 0.5], ["reb", R, c, -0.25], ["close", R, c]]
            ops += [["transact", R, c, 3.0], ["transact", R, c, -2.0]]
        ops += [["flatten", R]]
        ops += [["batch", [["transact", R, "a", 4.0], ["transact", R, "a", -3.0]]]]
        ops += [["batch", [["alloc", R, "a", 16.0], ["alloc", R, "b", -8.0], ["adjust", R, 8.0, True]]]]
    elif shape == "T2":
        ops += [["adjust", ["s1"], 4.0, False]]
        ops += [["alloc", R, "s1", 32.0], ["alloc", R, "s2", 16.0], ["alloc", R, "s1", -8.0]]
        ops += [["alloc", ["s1"], "a", 8.0], ["alloc", ["s1"], "b", -4.0], ["alloc", ["s2"], "a", 8.0], ["alloc", R, "b", 8.0]]
        ops += [["transact", ["s1"], "a", 2.0], ["transact", ["s1"], "a", -3.0], ["transact", ["s2"], "a", 2.0]]
        ops += [["reb", R, "s1", 0.5], ["reb", ["s1"], "a", 0.5], ["reb", R, "s2", 0.25]]
        ops += [["close", R, "s1"], ["close", ["s1"], "a"], ["flatten", ["s1"]], ["flatten", R], ["allocself", ["s1"], 8.0]]
        ops += [["batch", [["transact", ["s1"], "a", 4.0], ["transact", ["s1"], "a", -3.0], ["transact", ["s2"], "a", 1.0]]]]
    elif shape == "T3":
        return base_ops(shape) + [["adjust", R, 4.0, False], ["transact", ["s1"], "b", 3.0], ["transact", ["s1", "s11"], "a", -2.0]]
    else:
        raise KeyError(shape)
    return ops


def custom_price_ops(shape):
    """Trades at bespoke prices (need bid/offer data)."""
    if shape in ("T1", "T1lazy", "T1c"):
        return [["sectransact", ["a"], 2.0, 5.0], ["sectransact", ["a"], -1.0, 3.0], ["sectransact", ["b"], 4.0, 0.75]]
    if shape == "T2":
        return [["sectransact", ["s1", "a"], 2.0, 5.0], ["sectransact", ["s2", "a"], -1.0, 3.0], ["sectransact", ["b"], 4.0, 0.75]]
    return []


def flow_ops(shape):
    """C03 alphabet: several adjusts per date of both signs, flow and non-flow,
    interleaved with trades and date changes; flows into sub-strategies."""
    ops = [["next"], ["update"]]
    ops += [["adjust", R, 16.0, True], ["adjust", R, -8.0, True], ["adjust", R, 64.0, True], ["adjust", R, 4.0, False], ["adjust", R, -2.0, False]]
    ops += [["algos", R, {}, "CapitalFlow", [16.0]]]  # the stock algo for contributions / withdrawals
    if shape in ("T1", "T1lazy", "T1c"):
        ops += [["alloc", R, "a", 16.0], ["alloc", R, "b", -8.0], ["reb", R, "a", 0.5], ["close", R, "a"], ["transact", R, "b", 3.0], ["flatten", R]]
        ops += [["batch", [["adjust", R, 16.0, True], ["alloc", R, "a", 16.0]]]]
        ops += [["batch", [["adjust", R, 16.0, True], ["adjust", R, -16.0, True]]]]
        # a trade requested with update=True and the clock moved before anything was read
        ops += [["seq", [["alloc", R, "a", 16.0], ["next_raw"]]], ["seq", [["transact", R, "b", 3.0], ["next_raw"]]]]
    elif shape == "T2":
        ops += [["alloc", R, "s1", 32.0], ["alloc", R, "s1", -8.0], ["alloc", R, "s2", 16.0], ["alloc", ["s1"], "a", 8.0], ["alloc", ["s2"], "a", 8.0]]
        ops += [["reb", R, "s1", 0.5], ["close", R, "s1"], ["flatten", R], ["allocself", ["s1"], 8.0], ["adjust", ["s1"], 4.0, False]]
    elif shape == "T3":
        ops += [["alloc", R, "s1", 16.0], ["alloc", R, "s1", -8.0], ["alloc", ["s1"], "s11", 8.0], ["alloc", ["s1", "s11"], "a", 8.0], ["alloc", ["s1"], "b", -4.0]]
        ops += [["reb", ["s1"], "s11", 0.5], ["close", ["s1"], "s11"], ["close", R, "s1"], ["flatten", R], ["adjust", ["s1"], 4.0, False]]
    else:
        raise KeyError(shape)
    return ops


def fi_ops(shape):
    """C17 alphabet on fixed-income trees."""
    ops = [["next"], ["update"], ["adjust", R, 16.0, True]]
    if shape == "F1":
        for c, q in (("f", 8.0), ("f", -4.0), ("c", 8.0), ("c", -12.0), ("h", 2.0), ("h", -3.0), ("e", 2.0), ("ch", 4.0), ("ch", -4.0)):
            ops += [["transact", R, c, q]]
        ops += [["close", R, "c"], ["close", R, "f"], ["flatten", R]]
        ops += [["rebbase", R, "f", 0.5, 16.0], ["rebbase", R, "c", -0.25, 16.0], ["reb", R, "c", 0.5], ["rebbase", R, "e", 0.25, 16.0]]
        ops += [["algos", R, {"weights": {"f": 0.5, "c": 0.25}, "notional_value": 32.0}, "Rebalance"]]
        ops += [["algos", R, {"weights": {"c": -0.5, "e": 0.25}, "notional_value": 16.0}, "Rebalance"]]
        ops += [["algos", R, {"weights": {"f": 0.5, "c": 0.5}}, "Rebalance"]]
        ops += [["algos", R, {"weights": {"f": 0.5}, "notional_value": 16.0}, "Rebalance"]]
        ops += [["stransact", R, 8.0]]
        # two ordinary operations back to back, nothing read in between
        ops += [["seq", [["transact", R, "c", 8.0], ["rebbase", R, "c", 0.5, 32.0]]], ["seq", [["transact", R, "f", -4.0], ["rebbase", R, "f", 0.25, 16.0]]]]
    elif shape == "F2":
        for c, q in (("f", 8.0), ("f", -4.0), ("c", 8.0), ("c", -12.0)):
            ops += [["transact", ["sf"], c, q]]
        ops += [["transact", R, "e", 2.0], ["transact", R, "h", 2.0], ["stransact", ["sf"], 8.0], ["stransact", R, 4.0]]
        ops += [["close", R, "sf"], ["close", ["sf"], "c"], ["flatten", ["sf"]], ["flatten", R]]
        ops += [["alloc", R, "sf", 8.0], ["alloc", R, "sf", -4.0]]  # capital handed to / taken from the sub-strategy
        ops += [["rebbase", R, "sf", 0.5, 32.0], ["rebbase", ["sf"], "c", 0.5, 16.0], ["reb", ["sf"], "f", 0.5]]
        ops += [["algos", R, {"weights": {"sf": 0.75, "e": 0.25}, "notional_value": 32.0}, "Rebalance"]]
    else:
        raise KeyError(shape)
    return ops


def small_ops(shape):
    """A reduced alphabet (one op per kind, shorts and closes included) for the explorers whose
    cost is multiplied by placements x nodes x properties (C08)."""
    if shape in ("T1", "T1lazy", "T1c"):
        return [
            ["next"], ["update"], ["adjust", R, 16.0, True], ["adjust", R, -8.0, False],
            ["alloc", R, "a", 16.0], ["alloc", R, "b", -16.0], ["reb", R, "b", 0.5], ["close", R, "a"],
            ["transact", R, "b", 3.0], ["flatten", R], ["batch", [["alloc", R, "a", 16.0], ["alloc", R, "b", -8.0]]],
            ["rebbase", R, "a", 0.5, 64.0], ["algos", R, {"weights": {}}, "Rebalance"], ["algos", R, {}, "CapitalFlow", [-8.0]], ["sectransact", ["b"], -3.0, 0.0],
        ]
    if shape == "T2":
        return [
            ["next"], ["update"], ["adjust", R, 16.0, True],
            ["alloc", R, "s1", 16.0], ["alloc", R, "s1", -8.0], ["alloc", ["s1"], "a", 8.0], ["alloc", ["s2"], "a", -4.0], ["alloc", R, "b", 8.0],
            ["reb", R, "s2", 0.25], ["reb", ["s1"], "b", -0.25], ["close", R, "s1"], ["flatten", ["s1"]], ["allocself", ["s1"], 8.0], ["transact", ["s1"], "a", 2.0],
        ]
    if shape == "T3":
        return [
            ["next"], ["update"], ["adjust", R, 16.0, True], ["alloc", ["s1", "s11"], "a", 8.0], ["alloc", ["s1"], "b", -4.0],
            ["reb", ["s1"], "s11", 0.5], ["close", ["s1"], "s11"], ["close", R, "s1"], ["flatten", ["s1"]], ["allocself", ["s1"], 8.0],
        ]
    if shape == "F1":
        return [
            ["next"], ["update"], ["adjust", R, 16.0, True], ["transact", R, "f", 8.0], ["transact", R, "c", -12.0], ["transact", R, "h", 2.0], ["transact", R, "ch", 4.0], ["transact", R, "e", 2.0],
            ["close", R, "c"], ["flatten", R], ["rebbase", R, "f", 0.5, 16.0], ["algos", R, {"weights": {"f": 0.5, "c": 0.25}, "notional_value": 32.0}, "Rebalance"],
        ]
    if shape == "F2":
        return [
            ["next"], ["update"], ["transact", ["sf"], "f", 8.0], ["transact", ["sf"], "c", -12.0], ["transact", R, "e", 2.0], ["stransact", ["sf"], 8.0],
            ["close", R, "sf"], ["flatten", ["sf"]], ["rebbase", R, "sf", 0.5, 32.0], ["rebbase", ["sf"], "c", 0.5, 16.0],
        ]
    raise KeyError(shape)
