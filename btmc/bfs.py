"""Explicit-state breadth-first search over the real transition function (DESIGN 3.4).

A state is identified by the operation history that reaches it.  To expand a
state a worker rebuilds a fresh tree, replays the history, applies one more
operation, evaluates the oracle module's pre/post hooks on the real objects and
returns the canonical key of the successor.  The master owns deduplication.

Oracle module interface (module-level, importable in workers):
    OBSERVE   bool - read root.value before every op (also while replaying)
    pre(tree, op)        -> opaque
    post(tree, op, pre)  -> list of violation dicts {rule, expected, observed[, sig]}
"""
import importlib
import time

from . import rt, tree as T


def _observe(t, spec):
    """the read that precedes every op: the root's value, or (spec observe='leaves') every
    node's weight and value from the securities upwards - dormant ones included"""
    if spec.get("observe") == "leaves":
        for n in reversed(list(t.root.members)):
            n.weight
            n.value
    t.root.value


def run_history(spec, hist, observe):
    t = T.Tree(spec)
    for op in hist:
        if observe:
            _observe(t, spec)
        if not t.apply(op):
            return None
    return t


def expand(item):
    """Worker: all one-op successors of one state."""
    modname, spec, hist, ops = item
    mod = importlib.import_module(modname)
    observe = bool(getattr(mod, "OBSERVE", False))
    res = []
    for op in ops:
        try:
            t = run_history(spec, hist, observe)
        except Exception as e:  # the prefix was reached before: must not fail now
            res.append(("harness", None, [{"rule": "prefix_diverged", "observed": rt.describe(e)}]))
            continue
        if t is None:
            res.append(("harness", None, [{"rule": "prefix_diverged", "observed": "prefix op disabled"}]))
            continue
        try:
            if observe:
                _observe(t, spec)
            pre = mod.pre(t, op)
            if not t.apply(op):
                res.append(("disabled", None, []))
                continue
            key = T.canon_key(t)
            viols = mod.post(t, op, pre)
            res.append(("ok", key, viols))
        except Exception as e:
            if rt.classify(e) == "guard":
                res.append(("refused", None, []))
            else:
                res.append(("crash", None, [{"rule": "crash", "observed": rt.describe(e), "expected": "no exception other than a documented guard"}]))
    return res


def replay_case(modname, case):
    """Used by replay(): re-run one (spec, hist+op) with the oracle; returns violations."""
    mod = importlib.import_module(modname)
    observe = bool(getattr(mod, "OBSERVE", False))
    spec, hist = case["spec"], case["history"]
    hist = [_tuplify(o) for o in hist]
    if not hist:
        try:
            run_history(spec, [], observe)
        except Exception as e:
            return [{"rule": "setup_failed", "observed": rt.describe(e)}]
        return []
    t = run_history(spec, hist[:-1], observe)
    op = hist[-1]
    try:
        if observe:
            _observe(t, spec)
        pre = mod.pre(t, op)
        t.apply(op)
        out = mod.post(t, op, pre)
    except Exception as e:
        if rt.classify(e) == "guard":
            return []
        return [{"rule": "crash", "observed": rt.describe(e)}]
    return out


def _tuplify(o):
    return o


def search(ctx, kind, modname, spec, ops, depth, label="", time_cap=None, nontrivial=None):
    """Level-synchronous BFS.  Returns dict of counters; reports into ctx."""
    t0 = time.time()
    init_key = None
    seen = set()
    frontier = [[]]
    levels = []
    states = 1
    transitions = 0
    refused = 0
    disabled = 0
    completed = 0
    nviol = 0
    for d in range(1, depth + 1):
        items = [(modname, spec, h, ops) for h in frontier]
        nxt = []
        for (_m, _s, h, _o), results in ctx.run(kind, "btmc.bfs", "expand", items, chunksize=max(1, min(8, len(items) // (ctx.jobs * 4) or 1))):
            for op, (status, key, viols) in zip(ops, results):
                if status == "disabled":
                    disabled += 1
                    continue
                if status == "harness" and not h:
                    # the well-formed initial tree itself could not be built / funded
                    v = dict(viols[0], rule="setup_failed", build=kind, module=modname, case={"spec": spec, "history": []}, expected="the initial tree can be set up, funded and updated")
                    ctx.violation(v)
                    ctx.add(states=1, transitions=1)
                    return {"label": label, "setup_failed": True}
                if status == "harness":
                    raise RuntimeError("replay of a reached prefix diverged: %r %r %r" % (h, op, viols))
                transitions += 1
                if status == "refused":
                    refused += 1
                    continue
                for v in viols:
                    v = dict(v)
                    v["build"] = kind
                    v["module"] = modname
                    v["case"] = {"spec": spec, "history": list(h) + [op]}
                    ctx.violation(v)
                    nviol += 1
                if status == "crash":
                    continue
                if key not in seen:
                    seen.add(key)
                    nxt.append(list(h) + [op])
                    if nontrivial is None or nontrivial(h, op):
                        pass
        levels.append(len(nxt))
        frontier = nxt
        completed = d
        if not frontier:
            break
        if time_cap is not None and time.time() - t0 > time_cap and d < depth:
            ctx.exhaustive = False
            ctx.notes.append("%s: wall-clock cap %.0fs hit after completing depth %d of %d" % (label, time_cap, d, depth))
            break
    states += len(seen)
    ctx.add(states=states, transitions=transitions, traces_validated_against_impl=transitions, evaluations=transitions, refused=refused)
    ctx.nontrivial_count += len(seen)
    info = {"label": label, "build": kind, "depth_completed": completed, "depth_bound": depth, "ops": len(ops), "states": states, "transitions": transitions, "refused": refused, "disabled": disabled, "frontier_sizes": levels, "violations": nviol, "wall_s": round(time.time() - t0, 1)}
    ctx.extra.setdefault("searches", []).append(info)
    if transitions >= 100 and refused > 0.4 * transitions:
        # a wholesale flip of ordinary operations into guard errors must not pass as "refused"
        ctx.violation({"rule": "too_many_refusals", "build": kind, "observed": "%d of %d transitions of %s were refused by guards" % (refused, transitions, label), "expected": "<= 40% (unchanged tree: far below)"})
    if frontier:
        ctx.sample({"search": label, "history": frontier[len(frontier) // 2]})
    return info
