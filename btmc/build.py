"""Materialise a build of bt from the *current working tree* (DESIGN 2.1, 3.1).

Checks never import /repo/bt: the compiled core.*.so lying there is stale by
construction.  `make(kind)` copies the four tracked sources into a fresh
scratch directory (outside /repo and /verif, removed at exit) and, for kind
'cy', cythonizes core.py there.
"""
import atexit
import hashlib
import os
import shutil
import signal
import subprocess
import sys
import tempfile

SOURCES = ("__init__.py", "core.py", "algos.py", "backtest.py")
PY = "/venv/bin/python"

_made = []


def source_root():
    return os.environ.get("BTMC_SRC", "/repo")


def source_sha256():
    out = {}
    for s in SOURCES:
        with open(os.path.join(source_root(), "bt", s), "rb") as f:
            out["bt/" + s] = hashlib.sha256(f.read()).hexdigest()
    return out


def _cleanup():
    # only the process that created the directories removes them
    for pid, d in _made:
        if pid == os.getpid():
            shutil.rmtree(d, ignore_errors=True)


atexit.register(_cleanup)


def _sig(signum, frame):
    _cleanup()
    sys.exit(128 + signum)


def install_signal_handlers():
    for s in (signal.SIGTERM, signal.SIGINT, signal.SIGHUP):
        try:
            signal.signal(s, _sig)
        except Exception:
            pass


def make(kind="py", opt="-O0"):
    """Returns a directory to put first on sys.path."""
    assert kind in ("py", "cy")
    base = os.environ.get("BTMC_SCRATCH") or tempfile.gettempdir()
    d = tempfile.mkdtemp(prefix="btmc-%s-" % kind, dir=base)
    _made.append((os.getpid(), d))
    os.makedirs(os.path.join(d, "bt"))
    for s in SOURCES:
        shutil.copy(os.path.join(source_root(), "bt", s), os.path.join(d, "bt", s))
    if kind == "cy":
        setup = (
            "from setuptools import setup\n"
            "from Cython.Build import cythonize\n"
            "setup(name='btx', ext_modules=cythonize('bt/core.py', quiet=True), script_args=['build_ext','--inplace','-q'])\n"
        )
        with open(os.path.join(d, "_setup.py"), "w") as f:
            f.write(setup)
        env = dict(os.environ)
        env["CFLAGS"] = "%s -w" % opt
        r = subprocess.run([PY, "_setup.py"], cwd=d, env=env, capture_output=True, text=True)
        so = [x for x in os.listdir(os.path.join(d, "bt")) if x.startswith("core.") and x.endswith(".so")]
        if r.returncode != 0 or not so:
            raise RuntimeError("cython build failed:\n%s\n%s" % (r.stdout[-2000:], r.stderr[-4000:]))
        # the interpreted source must not shadow the extension; keep a copy for
        # traceback line classification (rt.classify)
        os.makedirs(os.path.join(d, "src"))
        shutil.copy(os.path.join(d, "bt", "core.py"), os.path.join(d, "src", "core.py"))
        os.remove(os.path.join(d, "bt", "core.py"))
        for junk in ("core.c",):
            p = os.path.join(d, "bt", junk)
            if os.path.exists(p):
                os.remove(p)
        shutil.rmtree(os.path.join(d, "build"), ignore_errors=True)
    return d


def activate(build_dir, expect_kind=None):
    """Import bt from build_dir in this process; refuses anything under /repo."""
    if "bt" in sys.modules:
        f = sys.modules["bt"].__file__
        if not f.startswith(build_dir):
            raise RuntimeError("bt already imported from %s" % f)
        return sys.modules["bt"]
    sys.path.insert(0, build_dir)
    import bt  # noqa

    cf = os.path.realpath(bt.core.__file__)
    if cf.startswith("/repo/") or not cf.startswith(os.path.realpath(build_dir)):
        raise RuntimeError("bt.core resolved to %s, not to the scratch build" % cf)
    if expect_kind == "cy" and not cf.endswith(".so"):
        raise RuntimeError("expected compiled core, got %s" % cf)
    if expect_kind == "py" and not cf.endswith(".py"):
        raise RuntimeError("expected interpreted core, got %s" % cf)
    return bt
