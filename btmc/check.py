"""Check runner:  /venv/bin/python -m btmc.check <ID> --tier quick|thorough

exit 0  property held on everything explored (KNOWN-FINDING lines allowed)
exit 1  a line `VIOLATION property=<id> replay=<path>` was printed
exit 2  harness error (never on the unchanged tree)
"""
import argparse
import hashlib
import importlib
import json
import multiprocessing as mp
import os
import subprocess
import sys
import time
import traceback

from . import build, findings

ROOT = os.path.dirname(os.path.dirname(os.path.abspath(__file__)))
EVIDENCE = os.path.join(ROOT, "evidence")
REPLAYS = os.path.join(ROOT, "replays")
MAX_REPLAY_FILES = 12
MAX_PER_RULE = 3


_INIT_ERROR = None


def _worker_init(build_dir, kind):
    """never raises: a worker that dies in its initializer is re-spawned for ever by the pool;
    a tree that cannot even be imported turns every case into a driver_exception instead"""
    global _INIT_ERROR
    from . import rt

    try:
        rt.init(build_dir, kind)
    except BaseException as e:  # noqa
        _INIT_ERROR = "the %s build of bt cannot be imported: %r" % (kind, e)


class WorkerError(object):
    """An exception escaped a worker function (never raised across the pool)."""

    def __init__(self, desc, kind):
        self.desc = desc
        self.kind = kind


def _call(args):
    modname, fname, item = args
    if _INIT_ERROR is not None:
        return WorkerError(_INIT_ERROR, "crash")
    try:
        mod = importlib.import_module(modname)
        return getattr(mod, fname)(item)
    except BaseException as e:  # noqa
        from . import rt

        try:
            kind = rt.classify(e)
            desc = rt.describe(e)
        except Exception:
            kind, desc = "crash", repr(e)
        return WorkerError(desc + " | " + "".join(traceback.format_tb(e.__traceback__)[-3:])[-600:], kind)


def _call_chunk(argslist):
    return [_call(a) for a in argslist]


class Ctx(object):
    def __init__(self, prop, tier, seed, jobs):
        self.prop = prop
        self.tier = tier
        self.seed = seed
        self.jobs = jobs
        self.t0 = time.time()
        # replay files of earlier runs of this property are stale by definition
        import glob

        for f in glob.glob(os.path.join(REPLAYS, "%s-*.json" % prop)):
            try:
                os.remove(f)
            except OSError:
                pass
        self._builds = {}
        self._pools = {}
        self.cov = {"states": 0, "transitions": 0, "traces_validated_against_impl": 0, "evaluations": 0, "refused": 0}
        self.nontrivial = set()
        self.nontrivial_count = 0
        self.rule = ""
        self.samples = []
        self.bounds = {}
        self.assumptions = []
        self.extra = {}
        self.exhaustive = True
        self.raw_violations = []
        self.known_hits = {}
        self.notes = []

    # ---- builds and pools -------------------------------------------------
    def build(self, kind):
        if kind not in self._builds:
            opt = "-O0" if self.tier == "quick" else "-O1"
            t = time.time()
            self._builds[kind] = build.make(kind, opt)
            self.notes.append("build %s in %.1fs" % (kind, time.time() - t))
        return self._builds[kind]

    def pool(self, kind):
        if kind not in self._pools:
            d = self.build(kind)
            ctx = mp.get_context("fork")
            self._pools[kind] = ctx.Pool(self.jobs, initializer=_worker_init, initargs=(d, kind), maxtasksperchild=None)
        return self._pools[kind]

    def map(self, kind, modname, fname, items, chunksize=1):
        """Ordered map of module-level function over items in workers of `kind`."""
        pool = self.pool(kind)
        return pool.imap(_call, [(modname, fname, it) for it in items], chunksize)

    def run(self, kind, modname, fname, items, chunksize=1):
        """Yields (item, result).  An exception escaping the worker function is not a harness
        error: on the unchanged tree it never happens, so it is reported as a violation
        (the code under test made the driver fail) and the item is skipped."""
        items = list(items)
        pool = self.pool(kind)
        cs = max(1, int(chunksize))
        chunks = [items[i : i + cs] for i in range(0, len(items), cs)]
        results = pool.imap(_call_chunk, [[(modname, fname, it) for it in ch] for ch in chunks], 1)
        pids = set(p.pid for p in pool._pool)

        def flat():
            # a worker that dies (a segfault from runaway recursion in the code under test, ...) takes its
            # task with it and the ordered iterator would wait for ever: the pool replaces the process, so
            # a changed set of worker pids while we wait is the sign
            for ch in chunks:
                while True:
                    try:
                        rs = results.next(timeout=15)
                        break
                    except mp.TimeoutError:
                        if set(p.pid for p in pool._pool) != pids:
                            self.add(transitions=1)
                            self.violation({"rule": "driver_exception", "build": kind, "expected": "the driver can execute this case on the real code", "observed": "a worker process died while this case (or one of its chunk) was running", "case": {"fn": "%s.%s" % (modname, fname), "item": ch[0]}})
                            return
                    except StopIteration:
                        return
                for it, res in zip(ch, rs):
                    yield it, res

        for it, res in flat():
            if isinstance(res, WorkerError):
                self.add(transitions=1)
                self.violation({"rule": "driver_exception", "build": kind, "expected": "the driver can execute this case on the real code", "observed": res.desc, "case": {"fn": "%s.%s" % (modname, fname), "item": it}})
                continue
            yield it, res

    def close(self):
        """Called once, immediately before os._exit.  Pool.terminate()/join() and the Pool
        finalizer can dead-lock (a worker that is gone may hold the task queue's read lock), so
        the pools are neither terminated nor released: re-population is switched off, the
        workers - which hold no state worth saving - are killed, and the master leaves through
        os._exit without running finalizers."""
        for p in self._pools.values():
            try:
                p._worker_handler._state = "TERMINATE"
            except Exception:
                pass
            for w in list(getattr(p, "_pool", [])):
                try:
                    w.kill()
                except Exception:
                    pass

    # ---- coverage ---------------------------------------------------------
    def add(self, **kw):
        for k, v in kw.items():
            self.cov[k] = self.cov.get(k, 0) + v

    def sample(self, s, limit=6):
        if len(self.samples) < limit:
            self.samples.append(s)

    def mark(self, key):
        """Register one distinct non-trivial case (key hashable / str)."""
        self.nontrivial.add(key)

    def violation(self, v):
        v = dict(v)
        v.setdefault("property", self.prop)
        self.raw_violations.append(v)

    def violations(self, vs):
        for v in vs:
            self.violation(v)

    # ---- finishing --------------------------------------------------------
    def finish(self):
        os.makedirs(EVIDENCE, exist_ok=True)
        unknown = []
        for v in self.raw_violations:
            fid = findings.match(v)
            if fid is not None:
                self.known_hits[fid] = self.known_hits.get(fid, 0) + 1
            else:
                unknown.append(v)
        dump = os.environ.get("BTMC_DUMP_SIGS")  # authoring-time helper (tools/gen_witnesses.py)
        if dump:
            with open(dump, "a") as f:
                for v in unknown:
                    f.write(json.dumps({"sig": v.get("sig"), "rule": v.get("rule")}) + "\n")
        lines = []
        per_rule = {}
        written = 0
        sha = build.source_sha256()
        for v in unknown:
            r = v.get("rule", "?")
            per_rule[r] = per_rule.get(r, 0) + 1
            if per_rule[r] > MAX_PER_RULE or written >= MAX_REPLAY_FILES:
                continue
            os.makedirs(REPLAYS, exist_ok=True)
            body = dict(v)
            body["source_sha256"] = sha
            body["seed"] = self.seed
            blob = json.dumps(body, sort_keys=True, default=str)
            dig = hashlib.sha1(json.dumps({k: body.get(k) for k in ("property", "rule", "build", "module", "case")}, sort_keys=True, default=str).encode()).hexdigest()[:12]
            path = os.path.join(REPLAYS, "%s-%s.json" % (self.prop, dig))
            with open(path, "w") as f:
                f.write(json.dumps(body, indent=1, sort_keys=True, default=str))
            written += 1
            note = ""
            if written <= 2 and v.get("module"):
                note = self._confirm(path)
            lines.append("VIOLATION property=%s replay=%s%s" % (self.prop, path, note))
        for fid, n in sorted(self.known_hits.items()):
            f = findings.get(fid)
            print("KNOWN-FINDING: property=%s %s [%s, %d case(s) this run]" % (self.prop, f["what"], fid, n))
        for fx in findings.fixed_for(self.prop):
            print("fixed: property=%s %s %s" % (self.prop, fx["commit"], fx["what"]))
        for ln in lines:
            print(ln)
        if unknown:
            rules = ", ".join("%s x%d" % kv for kv in sorted(per_rule.items()))
            print("%s: %d violation(s) [%s]" % (self.prop, len(unknown), rules))
        nd = len(self.nontrivial) + self.nontrivial_count
        cov = dict(self.cov)
        cov["distinct_nontrivial"] = nd
        cov["rule"] = self.rule
        cov["samples"] = self.samples if self.samples else ["(none)"]
        cov["exhaustive"] = bool(self.exhaustive)
        cov["bounds"] = self.bounds
        cov["builds"] = sorted(self._builds.keys())
        cov["source_sha256"] = sha
        cov["known_findings_hit"] = self.known_hits
        cov.update(self.extra)
        ev = {
            "property_id": self.prop,
            "tier": self.tier,
            "seed": int(self.seed),
            "level": "model_checking",
            "coverage": cov,
            "assumptions": self.assumptions,
            "wall_s": round(time.time() - self.t0, 2),
            "violations": len(unknown),
        }
        with open(os.path.join(EVIDENCE, "%s.json" % self.prop), "w") as f:
            json.dump(ev, f, indent=1, sort_keys=True, default=str)
        print(
            "%s %s seed=%d: states=%d transitions=%d traces=%d evaluations=%d distinct_nontrivial=%d refused=%d known=%d violations=%d wall=%.1fs"
            % (
                self.prop,
                self.tier,
                self.seed,
                cov.get("states", 0),
                cov.get("transitions", 0),
                cov.get("traces_validated_against_impl", 0),
                cov.get("evaluations", 0),
                nd,
                cov.get("refused", 0),
                sum(self.known_hits.values()),
                len(unknown),
                time.time() - self.t0,
            )
        )
        return 1 if unknown else 0

    def _confirm(self, path):
        """Re-execute from the replay file twice, in fresh processes."""
        outs = []
        for _ in range(2):
            env = dict(os.environ)
            r = subprocess.run([build.PY, "-m", "btmc.replay", path, "--quiet"], cwd=ROOT, env=env, capture_output=True, text=True)
            outs.append((r.returncode, r.stdout.strip().splitlines()[-1:] if r.stdout.strip() else []))
        if outs[0] != outs[1]:
            return "  (replays disagree: %s / %s)" % (outs[0][0], outs[1][0])
        if outs[0][0] == 1:
            return "  (reproduced twice in fresh processes)"
        return "  (seen during exploration; a stand-alone replay of this single case returned %s - state carried between executions?)" % outs[0][0]


def main(argv=None):
    ap = argparse.ArgumentParser()
    ap.add_argument("prop")
    ap.add_argument("--tier", default=os.environ.get("VERIF_TIER", "quick"), choices=["quick", "thorough"])
    ap.add_argument("--seed", type=int, default=int(os.environ.get("VERIF_SEED", "0") or 0))
    ap.add_argument("--jobs", type=int, default=int(os.environ.get("BTMC_JOBS", "0") or 0))
    a = ap.parse_args(argv)
    if os.environ.get("PYTHONHASHSEED") != "0" or os.environ.get("MPLBACKEND") != "Agg":
        env = dict(os.environ)
        env["PYTHONHASHSEED"] = "0"
        env["MPLBACKEND"] = "Agg"
        env["PYTHONWARNINGS"] = "ignore"
        env["OMP_NUM_THREADS"] = "1"
        env["OPENBLAS_NUM_THREADS"] = "1"
        env["MKL_NUM_THREADS"] = "1"
        os.execve(build.PY, [build.PY, "-m", "btmc.check"] + (argv if argv is not None else sys.argv[1:]), env)
    import signal

    holder = {}

    def _leave(code):
        sys.stdout.flush()
        build._cleanup()
        if holder.get("ctx") is not None:
            holder["ctx"].close()
        os._exit(code)

    def _watchdog(signum, frame):
        print("HARNESS-ERROR property=%s wall-clock watchdog fired" % a.prop.upper())
        _leave(2)

    def _term(signum, frame):
        _leave(128 + signum)

    signal.signal(signal.SIGALRM, _watchdog)
    for sg in (signal.SIGTERM, signal.SIGINT, signal.SIGHUP):
        signal.signal(sg, _term)
    signal.alarm(int(os.environ.get("BTMC_WATCHDOG_S", "1500" if a.tier == "quick" else "28000")))
    prop = a.prop.upper()
    jobs = a.jobs or min(16, os.cpu_count() or 4)
    ctx = Ctx(prop, a.tier, a.seed, jobs)
    holder["ctx"] = ctx
    try:
        mod = importlib.import_module("btmc.props.%s" % prop.lower())
        mod.run(ctx)
        rc = ctx.finish()
    except SystemExit:
        raise
    except BaseException:
        traceback.print_exc()
        print("HARNESS-ERROR property=%s" % prop)
        rc = 2
    sys.stdout.flush()
    sys.stderr.flush()
    build._cleanup()
    ctx.close()
    os._exit(rc)


if __name__ == "__main__":
    main()
