"""Known findings (DESIGN 7).  /verif/known_findings.json is read-only at run time."""
import json
import os

ROOT = os.path.dirname(os.path.dirname(os.path.abspath(__file__)))
PATH = os.path.join(ROOT, "known_findings.json")

_cache = {}


def _load():
    if "d" not in _cache:
        if os.path.exists(PATH):
            with open(PATH) as f:
                _cache["d"] = json.load(f)
        else:
            _cache["d"] = {"findings": [], "fixed": []}
        _cache["w"] = {}
    return _cache["d"]


def get(fid):
    for f in _load()["findings"]:
        if f["id"] == fid:
            return f
    return None


def fixed_for(prop):
    return [f for f in _load().get("fixed", []) if f["property"] == prop]


def _witnesses(rel):
    _load()
    if rel not in _cache["w"]:
        s = set()
        p = os.path.join(ROOT, rel)
        if os.path.exists(p + ".gz"):
            import gzip

            with gzip.open(p + ".gz", "rt") as f:
                for line in f:
                    line = line.strip()
                    if line:
                        s.add(line)
        if os.path.exists(p):
            with open(p) as f:
                for line in f:
                    line = line.strip()
                    if line:
                        s.add(line)
        _cache["w"][rel] = s
    return _cache["w"][rel]


# Named predicates: receive the violation (input AND observed outcome) and
# return True only for the recorded wrong outcome.
PREDICATES = {}


def predicate(name):
    def deco(fn):
        PREDICATES[name] = fn
        return fn

    return deco


def match(v):
    """Returns the id of the listed finding this violation is an instance of, or None."""
    for f in _load()["findings"]:
        if f["property"] != v.get("property"):
            continue
        if f.get("rule") and f["rule"] != v.get("rule"):
            continue
        m = f["match"]
        kind = m["kind"]
        if kind == "exact":
            if v.get("sig") is not None and v.get("sig") == m["signature"]:
                return f["id"]
        elif kind == "prefix":
            if v.get("sig") is not None and str(v.get("sig")).startswith(m["signature"]):
                return f["id"]
        elif kind == "witnesses":
            if v.get("sig") is not None and v.get("sig") in _witnesses(m["file"]):
                return f["id"]
        elif kind == "predicate":
            fn = PREDICATES.get(m["name"])
            if fn is not None:
                try:
                    if fn(v):
                        return f["id"]
                except Exception:
                    pass
    return None


from . import findings_predicates  # noqa: E402,F401  (registers predicates)
