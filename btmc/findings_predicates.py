"""Predicates that identify the *specific* recorded wrong outcome of a known finding."""
from .findings import predicate  # noqa: F401
