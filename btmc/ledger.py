"""Per-operation and per-date ledger oracles shared by C02, C03, C07 (DESIGN 5).

Costs are recomputed from first principles: the executed trades are taken from
a pass-through spy on SecurityBase.transact (quantity as executed), prices and
spreads from the driver's own input tables, commissions from the driver's own
fee function - never from bt's `fees` bookkeeping.
"""
import math

from . import ref, rt, tree as T

OBSERVE = True

_spy = {"installed": False, "log": []}


def install_trade_spy():
    if _spy["installed"]:
        return
    bt = rt.bt()
    orig = bt.core.SecurityBase.transact

    def transact(self, q, update=True, update_self=True, price=None):
        r = orig(self, q, update, update_self, price)
        try:
            qq = float(q)
        except Exception:
            qq = float("nan")
        if qq == qq and abs(qq) >= 1e-16:
            _spy["log"].append((self, qq, None if price is None else float(price), str(self.parent.now)))
        return r

    bt.core.SecurityBase.transact = transact
    _spy["installed"] = True


def trades_of(t):
    """Executed trades of the real tree (paper copies excluded) since the last clear."""
    out = []
    for node, q, price, _when in _spy["log"]:
        if node.root is t.root:
            # (the multiplier the driver asked for, not the node's own attribute)
            out.append((node.full_name, node.parent.full_name, node.name, q, price, float(t.mult.get(node.name, 1))))
    return out


def trades_of_root(root):
    """(sec full name, owner full name, ticker, q, custom price, multiplier, date label)"""
    return [(rt.node_path(n), rt.node_path(n.parent), n.name, q, price, float(n.multiplier), when) for n, q, price, when in _spy["log"] if n.root is root]


def clear_trades():
    _spy["log"] = []


def mid(t, ticker):
    return float(t.data[ticker].values[t.i])


def trade_costs(t, trades):
    """-> list of dicts with notional outlay (incl. spread / custom price) and fee, own arithmetic."""
    fee = T.fee_fn(t.spec.get("fee"))
    out = []
    for full, owner, ticker, q, price, m in trades:
        p = mid(t, ticker)
        if price is None:
            half = abs(q) * 0.5 * (t.spread_now() or 0.0) * m
            outlay = q * p * m + half
            fe = fee(q, p * m) if fee else 0.0
            friction = half
        else:
            outlay = q * price * m
            fe = fee(q, price * m) if fee else 0.0
            friction = q * (price - p) * m
        out.append({"sec": full, "owner": owner, "q": q, "outlay": outlay, "fee": fe, "friction": friction})
    return out


def strat_names(snap):
    return [n for n in snap["__order__"] if snap[n]["kind"] == "S"]


def sec_names(snap):
    return [n for n in snap["__order__"] if snap[n]["kind"] == "X"]


def rows_now(t, snap):
    """fees / flows rows of every strategy and outlay rows of every security at the current date."""
    bt = rt.bt()
    out = {}
    for n in t.root.members:
        if isinstance(n, bt.core.StrategyBase):
            out[n.full_name] = {"fees": float(n.fees.iloc[-1]), "flows": float(n.flows.iloc[-1])}
        else:
            out[n.full_name] = {"outlays": float(n.outlays.iloc[-1])}
    return out


def pre(t, op):
    install_trade_spy()
    snap = T.snapshot(t)
    st = {"snap": snap, "rows": rows_now(t, snap), "label": str(t.root.now), "i": t.i, "nadj": len(t.adjust_log)}
    if op[0] in ("next", "next_raw"):
        st["hist"] = None
    clear_trades()
    if t.spy is not None:
        t.spy.calls = []
    return st


def _table_carry(t, tick, pos, i):
    def tab(name):
        fr = t.kw.get(name)
        if fr is None or tick not in fr.columns:
            return 0.0
        return float(fr[tick].values[i])

    hc = pos * tab("cost_long") if pos > 0 else (-pos * tab("cost_short") if pos < 0 else 0.0)
    return pos * tab("coupons") - hc


def post(t, op, st, want):
    """want: set of property ids among {'C02','C03','C07'}."""
    out = []
    scale = T.gross(t)
    s0, s1 = st["snap"], T.snapshot(t)
    trades = trades_of(t)
    costs = trade_costs(t, trades)
    adj = t.adjust_log[st["nadj"] :]
    is_next = op[0] == "next"
    r0, r1 = st["rows"], rows_now(t, s1)
    root = s1["__order__"][0]

    # ---------------- C02: value conservation across one op -----------------
    if "C02" in want:
        mtm = 0.0
        carry = 0.0
        for x in sec_names(s1):
            if x in s0:
                a, b = s0[x], s1[x]
                if a["position"] != 0.0:
                    mtm += a["position"] * (b["price"] - a["price"]) * a["mult"]
                if is_next and "coupon" in a:
                    # coupon less holding cost of the date being left, from the driver's own tables
                    # (not the node's read-outs) on the end-of-date position
                    carry += _table_carry(t, a["name"], a["position"], st["i"])
        friction = sum(c["fee"] + c["friction"] for c in costs)
        exp = s0[root]["value"] + mtm + carry + sum(a[2] for a in adj) - friction
        if not ref.near(s1[root]["value"], exp, scale):
            out.append({"rule": "value_conserved", "expected": {"root_value": exp, "before": s0[root]["value"], "mtm": mtm, "carry": carry, "adjust": sum(a[2] for a in adj), "costs": friction, "trades": [(c["sec"], c["q"]) for c in costs]}, "observed": s1[root]["value"]})

        # the bid/offer cost every strategy reports for the date: what was reported before + the spread (or
        # custom-price difference) of every trade executed below that node by this op
        if not is_next:
            for sname in strat_names(s1):
                if sname in s0 and "bidoffer_paid" in s0[sname] and "bidoffer_paid" in s1[sname]:
                    below = sum(c["friction"] for c in costs if c["sec"].startswith(sname + ">"))
                    exp_bo = s0[sname]["bidoffer_paid"] + below
                    if not ref.near(s1[sname]["bidoffer_paid"], exp_bo, scale):
                        out.append({"rule": "bidoffer_paid_total", "expected": {"node": sname, "bidoffer_paid": exp_bo, "before": s0[sname]["bidoffer_paid"], "spread_of_trades_below": below}, "observed": s1[sname]["bidoffer_paid"]})

    # ---------------- C07: cash ledger per node across one op ---------------
    if "C07" in want:
        new_date = is_next
        for n in strat_names(s1):
            c0 = s0[n]["capital"] if n in s0 else 0.0
            direct = sum(a[2] for a in adj if _path_name(t, a[1]) == n)
            own = sum(c["outlay"] + c["fee"] for c in costs if c["owner"] == n)
            fl1 = r1[n]["flows"]
            fl0 = 0.0 if new_date else (r0[n]["flows"] if n in r0 else 0.0)
            received = 0.0 if n == root else (fl1 - fl0)
            passed = 0.0
            swept = 0.0
            for c in s1[n]["children"]:
                if s1[c]["kind"] == "S":
                    passed += r1[c]["flows"] - (0.0 if new_date else (r0[c]["flows"] if c in r0 else 0.0))
                elif new_date and c in s0 and "coupon" in s0[c]:
                    swept += s0[c]["coupon"] - s0[c]["holding_cost"]
            exp = c0 + direct + received + swept - own - passed
            if not ref.near(s1[n]["capital"], exp, scale):
                out.append({"rule": "cash_ledger_op", "expected": {"node": n, "capital": exp, "before": c0, "direct": direct, "received": received, "swept": swept, "own_trades": own, "passed_down": passed}, "observed": s1[n]["capital"]})
            # fee booked for the node on this date = own fee function at (q, p*m), once per executed trade
            f0 = 0.0 if new_date else (r0[n]["fees"] if n in r0 else 0.0)
            fexp = f0 + sum(c["fee"] for c in costs if c["owner"] == n)
            if not ref.near(r1[n]["fees"], fexp, scale):
                out.append({"rule": "fee_booked", "expected": {"node": n, "fees_row": fexp, "trades": [(c["sec"], c["q"], c["fee"]) for c in costs if c["owner"] == n]}, "observed": r1[n]["fees"]})
            # the root's flow accumulator moves only by external flow adjustments
            if n == root:
                fexp = fl0 + sum(a[2] for a in adj if a[3] and _path_name(t, a[1]) == n)
                if not ref.near(fl1, fexp, scale):
                    out.append({"rule": "trade_counted_as_flow", "expected": {"node": n, "flows_row": fexp}, "observed": fl1})
        # a pure security trade moves nobody's flow accumulator (unless it ruins the root: the liquidation that
        # follows takes the sub-strategies' capital back, which is a flow of theirs - C16)
        went_bankrupt = bool(s1[root].get("bankrupt")) and not bool(s0[root].get("bankrupt"))
        if not went_bankrupt and (op[0] in ("transact", "sectransact") or (op[0] in ("alloc", "reb", "close") and _is_security_child(s1, t, op))):
            for n in strat_names(s1):
                fl0 = r0[n]["flows"] if n in r0 else 0.0
                if not ref.near(r1[n]["flows"], fl0, scale):
                    out.append({"rule": "trade_counted_as_flow", "expected": {"node": n, "flows_row": fl0}, "observed": r1[n]["flows"]})
        # outlay booked on each security's row
        for x in sec_names(s1):
            o0 = 0.0 if new_date else (r0[x]["outlays"] if x in r0 else 0.0)
            oexp = o0 + sum(c["outlay"] for c in costs if c["sec"] == x)
            if not ref.near(r1[x]["outlays"], oexp, scale):
                out.append({"rule": "outlay_booked", "expected": {"node": x, "outlays_row": oexp}, "observed": r1[x]["outlays"]})
        # the spy: every booked fee is one evaluation at the executed (q, p*m)
        if t.spy is not None and costs:
            for c in costs:
                hits = [k for k in t.spy.calls if ref.near(k[0], c["q"], 1.0) and ref.near(k[2], c["fee"], scale)]
                if not hits:
                    out.append({"rule": "fee_not_evaluated_at_executed_trade", "expected": {"sec": c["sec"], "q": c["q"], "fee": c["fee"]}, "observed": t.spy.calls[-6:]})

    # ---------------- C03: index recurrence after every op ------------------
    if "C03" in want:
        out += index_rule(t, s1, scale)

    # ---------------- per-date reconciliation from the recorded series -------
    if is_next:
        out += per_date(t, want, st["label"], st["i"], scale)
    return out


def _path_name(t, path):
    return ">".join(["r"] + list(path)) if True else None


def _is_security_child(s1, t, op):
    name = _path_name(t, op[1]) + ">" + op[2]
    return name in s1 and s1[name]["kind"] == "X"


def index_rule(t, s1, scale):
    """price_now = price_prev * V_now / (V_prev + F), F = the DRIVER's tally of flow adjustments
    at the root on the current date; prev = the recorded previous row (100 and 0 before the first)."""
    out = []
    root_name = s1["__order__"][0]
    if s1[root_name].get("fi"):
        return out
    r = t.root
    prices = r.prices
    values = r.values
    flows = r.flows
    i = t.i
    tally = sum(a[2] for a in t.adjust_log if a[0] == i and a[3] and len(a[1]) == 0)
    if not ref.near(float(flows.iloc[-1]), tally, scale):
        out.append({"rule": "flow_not_recorded", "expected": {"flows_row": tally}, "observed": float(flows.iloc[-1])})
    if len(prices) >= 2:
        p_prev, v_prev = float(prices.iloc[-2]), float(values.iloc[-2])
    else:
        p_prev, v_prev = 100.0, 0.0
    base = v_prev + tally
    # the value the index must be computed on: the balance sheet (cash of every strategy + marked
    # positions), not the node's own read-out
    v_now = 0.0
    for name in s1["__order__"]:
        n = s1[name]
        if n["kind"] == "X":
            if n["position"] != 0.0:
                v_now += n["position"] * n["price"] * n["mult"]
        else:
            v_now += n["capital"]
    if abs(base) < 1e-16:
        exp = p_prev if abs(v_now) < 1e-16 else None
    else:
        exp = p_prev * v_now / base
    if exp is not None and not ref.near(s1[root_name]["price"], exp, 100.0):
        out.append({"rule": "index_recurrence", "expected": {"price": exp, "prev_price": p_prev, "prev_value": v_prev, "flows": tally, "value": v_now}, "observed": s1[root_name]["price"]})
    if not ref.near(float(prices.iloc[-1]), s1[root_name]["price"], 100.0):
        out.append({"rule": "index_row", "expected": s1[root_name]["price"], "observed": float(prices.iloc[-1])})
    return out


def per_date(t, want, label, i, scale):
    """Reconcile the date `label` (index i), now closed, from the recorded series only
    (+ the driver's log of non-flow adjustments)."""
    out = []
    h = T.histories(t)
    bt = rt.bt()
    root = t.root

    def val(name, series, idx):
        if idx < 0:
            return 0.0
        labels, vals = h[name][series]
        return vals[idx] if idx < len(vals) else 0.0

    strategies = [n for n in root.members if isinstance(n, bt.core.StrategyBase)]
    secs = [n for n in root.members if not isinstance(n, bt.core.StrategyBase)]
    nonflow = lambda name: sum(a[2] for a in t.adjust_log if a[0] == i and not a[3] and _path_name(t, a[1]) == name)  # noqa: E731
    if "C07" in want:
        for n in strategies:
            name = n.full_name
            d = val(name, "cash", i) - val(name, "cash", i - 1)
            own = [c for c in n.children.values() if not isinstance(c, bt.core.StrategyBase)]
            kids = [c for c in n.children.values() if isinstance(c, bt.core.StrategyBase)]
            swept = 0.0
            for c in own:
                if "coupons" in h[c.full_name]:
                    swept += val(c.full_name, "coupons", i - 1) - val(c.full_name, "holding_costs", i - 1)
            exp = val(name, "flows", i) + nonflow(name) + swept - sum(val(c.full_name, "outlays", i) for c in own) - val(name, "fees", i) - sum(val(c.full_name, "flows", i) for c in kids)
            if not ref.near(d, exp, scale):
                out.append({"rule": "cash_ledger_date", "expected": {"node": name, "date": label, "delta_cash": exp}, "observed": d})
    if "C02" in want:
        name = root.full_name
        d = val(name, "values", i) - val(name, "values", i - 1)
        mtm = 0.0
        carry = 0.0
        spreads = 0.0
        for c in secs:
            cn = c.full_name
            if i >= 1:
                p1, p0 = val(cn, "prices", i), val(cn, "prices", i - 1)
                pos0 = val(cn, "positions", i - 1)
                if pos0 != 0.0:
                    mtm += pos0 * (p1 - p0) * float(t.mult.get(c.name, 1))
                if "coupons" in h[cn]:
                    carry += val(cn, "coupons", i - 1) - val(cn, "holding_costs", i - 1)
            if "bidoffers_paid" in h[cn]:
                spreads += val(cn, "bidoffers_paid", i)
        fees = sum(val(s.full_name, "fees", i) for s in strategies)
        allnonflow = sum(a[2] for a in t.adjust_log if a[0] == i and not a[3])
        exp = mtm + val(name, "flows", i) + allnonflow + carry - fees - spreads
        if not ref.near(d, exp, scale):
            out.append({"rule": "pnl_attribution_date", "expected": {"date": label, "delta_value": exp, "mtm": mtm, "flows": val(name, "flows", i), "nonflow": allnonflow, "carry": carry, "fees": fees, "spreads": spreads}, "observed": d})
    if "C03" in want and not root.fixed_income:
        name = root.full_name
        p_prev = val(name, "prices", i - 1) if i >= 1 else 100.0
        v_prev = val(name, "values", i - 1)
        base = v_prev + val(name, "flows", i)
        if abs(base) > 1e-16:
            exp = p_prev * val(name, "values", i) / base
            if not ref.near(val(name, "prices", i), exp, 100.0):
                out.append({"rule": "index_recurrence_date", "expected": {"date": label, "price": exp}, "observed": val(name, "prices", i)})
    return out


# ----------------------------------------------------------------------
# in-flight context of SecurityBase.allocate (to decide, when a sizing guard fires,
# whether the request was in fact satisfiable - the known sizing defect, C05)

_alloc = {"installed": False, "stack": [], "last_failed": None, "done": []}


def install_alloc_spy():
    if _alloc["installed"]:
        return
    bt = rt.bt()
    orig = bt.core.SecurityBase.allocate

    def allocate(self, amount, update=True):
        ctx = {"node": self, "amount": float(amount)}
        _alloc["stack"].append(ctx)
        try:
            pos0 = float(self._position)
            r = orig(self, amount, update)
            try:
                _alloc["done"].append({"node": self, "name": self.full_name, "amount": float(amount), "pos0": pos0, "pos1": float(self._position), "price": float(self._price), "mult": float(self.multiplier), "integer": bool(self.integer_positions), "spread": float(self._bidoffer) if self._bidoffer_set else None, "value0": pos0 * float(self._price) * float(self.multiplier)})
            except Exception:
                pass
            return r
        except BaseException:
            if _alloc["last_failed"] is None or _alloc["last_failed"].get("done"):
                c = dict(ctx)
                n = self
                try:
                    c.update(position=float(n._position), price=float(n._price), mult=float(n.multiplier), integer=bool(n.integer_positions), spread=float(n._bidoffer) if n._bidoffer_set else None, name=n.full_name, when=str(n.parent.now))
                except Exception:
                    pass
                c.pop("node", None)
                _alloc["last_failed"] = c
            raise
        finally:
            _alloc["stack"].pop()

    bt.core.SecurityBase.allocate = allocate
    _alloc["installed"] = True


def take_allocs(root=None):
    out = [d for d in _alloc["done"] if root is None or d["node"].root is root]
    _alloc["done"] = []
    return [{k: v for k, v in d.items() if k != "node"} for d in out]


def take_failed_alloc():
    c = _alloc["last_failed"]
    _alloc["last_failed"] = None
    _alloc["stack"] = []
    return c
