"""Shared run() of C02 / C03 / C07: BFS configurations + the run family."""
from .. import alpha, bfs

VARIANTS = [
    # (name, spec overrides)
    ("int,none", {"integer": True, "fee": None, "spread": None, "mult": {}}),
    ("frac,prop,spread,m2", {"integer": False, "fee": "prop", "spread": 0.5, "mult": {"a": 2}}),
    ("int,maxflat,spread", {"integer": True, "fee": "maxflat", "spread": 0.25, "mult": {}}),
    ("frac,pershare", {"integer": False, "fee": "pershare", "spread": None, "mult": {"b": 2}}),
    ("int,flat,m2", {"integer": True, "fee": "flat", "spread": None, "mult": {"a": 2}}),
    ("frac,none,spread", {"integer": False, "fee": None, "spread": 0.5, "mult": {}}),
    ("frac,selllevy", {"integer": False, "fee": "selllevy", "spread": None, "mult": {}}),
    ("frac,rebate,m2", {"integer": False, "fee": "rebate", "spread": None, "mult": {"a": 2}}),
]


def ops_for(prop, shape, spec):
    if shape == "MC":
        R = []
        ops = [["next"], ["update"], ["adjust", R, 16.0, True], ["adjust", R, 4.0, False]]
        for c, q in (("c", 8.0), ("c", -12.0), ("e", 2.0), ("e", -3.0)):
            ops += [["transact", R, c, q]]
        ops += [["alloc", R, "c", 16.0], ["alloc", R, "e", -8.0], ["reb", R, "c", 0.5], ["close", R, "c"], ["close", R, "e"], ["flatten", R]]
        return ops
    if shape in ("F1", "F2"):
        return alpha.fi_ops(shape) + [["adjust", [], 4.0, False]]
    if prop == "C03":
        ops = alpha.flow_ops(shape)
    else:
        ops = alpha.cost_ops(shape)
    if spec.get("spread") is not None and prop in ("C02", "C07"):
        ops = ops + alpha.custom_price_ops(shape)
    if isinstance(spec.get("spread"), list) or spec.get("build") == "top_down":
        # (top_down: the shared security is created on first use - it cannot be addressed before)
        ops = [o for o in ops if o[0] not in ("sectransact",)]
    return ops


def configs(prop, tier, seed):
    quick = tier == "quick"
    out = []
    if quick:
        vs = [VARIANTS[(seed + k) % len(VARIANTS)] for k in (1, 2)]
        plan = [("T1", vs[0], 3, "exact"), ("T2", vs[1], 2, "exact"), ("T2", vs[0], 2, "exact"), ("T1", vs[1], 2, "decimal")]
        if prop in ("C02", "C07"):
            plan.append(("F1", VARIANTS[(seed + 1) % len(VARIANTS)], 3, "exact"))
            plan.append(("F1", VARIANTS[(seed + 2) % 6], 2, "splitcarry"))
            plan.append(("F2", VARIANTS[(seed + 1) % 6], 2, "exact"))  # coupon-paying securities inside a sub-strategy
            plan.append(("T3", VARIANTS[2 + seed % 3], 2, "exact"))
            plan.append(("MC", VARIANTS[(seed + 1) % 2], 3, "exact"))
            plan.append(("T1", VARIANTS[6], 3, "exact"))
            plan.append(("T2", VARIANTS[7], 2, "exact"))
            plan.append(("T1", VARIANTS[(seed + 3) % len(VARIANTS)], 3, "zero"))
            plan.append(("T1", VARIANTS[(seed + 4) % len(VARIANTS)], 3, "zero2"))
            plan.append(("T1", VARIANTS[1 + (seed % 2) * 2], 3, "spreadpath"))
        plan.append(("T1", VARIANTS[(seed + 2) % 6], 3, "dormant"))
        plan.append(("T1", VARIANTS[(seed + 3) % 6], 2, "seeded"))
        plan.append(("T1", VARIANTS[(seed + 1) % 6], 2, "bigbook"))
        plan.append(("T2", VARIANTS[(seed + 1) % 6], 2, "topdown"))
        if prop == "C03":
            plan.append(("MC", VARIANTS[(seed + 1) % 2], 2, "exact"))
    else:
        plan = []
        for vi, v in enumerate(VARIANTS):
            # (depth 4 on three cost models, depth 3 on the rest: the whole tier has to fit into an hour)
            plan.append(("T1", v, 4 if vi < 3 else 3, "exact"))
            plan.append(("T2", v, 3 if vi < 4 else 2, "exact"))
            plan.append(("T1", v, 3, "decimal"))
            plan.append(("T2", v, 3 if vi < 2 else 2, "decimal"))
        plan.append(("T3", VARIANTS[1], 3, "exact"))
        plan.append(("T3", VARIANTS[2], 3, "exact"))
        plan.append(("T3", VARIANTS[4], 3, "exact"))
        for v in VARIANTS[:4]:
            plan.append(("T1", v, 4, "zero"))
            plan.append(("T1", v, 3, "zero2"))
        plan.append(("T2", VARIANTS[0], 3, "zero"))
        for v in VARIANTS[:4]:
            plan.append(("T1", v, 4, "spreadpath"))
        plan.append(("T2", VARIANTS[2], 3, "spreadpath"))
        for v in VARIANTS[:3]:
            plan.append(("T1", v, 3, "dormant"))
            plan.append(("T1", v, 3, "seeded"))
        plan.append(("T2", VARIANTS[0], 2, "seeded"))
        for v in VARIANTS[:3]:
            plan.append(("T1", v, 3, "bigbook"))
        plan.append(("T2", VARIANTS[0], 3, "topdown"))
        plan.append(("T2", VARIANTS[1], 3, "topdown"))
        if prop == "C03":
            plan.append(("MC", VARIANTS[0], 3, "exact"))
            plan.append(("MC", VARIANTS[1], 3, "exact"))
        if prop in ("C02", "C07"):
            for v in VARIANTS[:4]:
                plan.append(("F1", v, 3, "exact"))
            plan.append(("F2", VARIANTS[1], 3, "exact"))
            plan.append(("F1", VARIANTS[1], 3, "decimal"))
            plan.append(("F1", VARIANTS[0], 3, "splitcarry"))
            plan.append(("MC", VARIANTS[1], 3, "splitcarry"))
            for v in (VARIANTS[0], VARIANTS[1], VARIANTS[4]):
                plan.append(("MC", v, 4, "exact"))
            plan.append(("T2", VARIANTS[6], 3, "exact"))
            plan.append(("T1", VARIANTS[7], 3, "exact"))
            plan.append(("T2", VARIANTS[7], 3, "exact"))
    for shape, (vn, v), depth, al in plan:
        spec = dict(v, shape=shape, alpha=al, capital=64.0, ndates=4)
        if al == "zero":
            # a price that touches exactly zero while positions may be open, then recovers
            spec["alpha"] = "exact"
            spec["prices"] = {"a": [4.0, 0.0, 2.0, 0.0], "b": [1.0, 2.0, 0.0, 1.0]}
        if al == "spreadpath":
            # the same quantity can trade at the same mid price on two dates while the spread differs
            spec["alpha"] = "exact"
            spec["prices"] = {"a": [4.0, 4.0, 2.0, 2.0], "b": [1.0, 1.0, 1.0, 2.0]}
            spec["spread"] = [0.5, 1.0, 0.25, 0.5]
        if al == "zero2":
            # start from a non-initial state: a position is open when the price sits at zero twice
            spec["alpha"] = "exact"
            spec["prices"] = {"a": [4.0, 0.0, 0.0, 2.0], "b": [1.0, 2.0, 0.0, 1.0]}
            spec["preops"] = [["transact", [], "a", 3.0], ["next"]]
        if al == "topdown":
            spec["alpha"] = "exact"
            spec["build"] = "top_down"
        if al == "bigbook":
            # a book of a million: the alphabet's flows, fees and trades are a few millionths of it
            spec["alpha"] = "exact"
            spec["capital"] = 1048576.0
        if al == "splitcarry":
            spec["alpha"] = "exact"
            spec["carry"] = "split"
        if al == "seeded":
            spec["alpha"] = "exact"
            spec["seed_before_setup"] = 16.0
        if al == "dormant":
            # a security that was held, closed and then skipped for two dates; every op is preceded by a
            # read of every node's weight and value, leaves first
            spec["alpha"] = "exact"
            spec["ndates"] = 6
            spec["preops"] = [["transact", [], "a", 3.0], ["next"], ["close", [], "a"], ["next"], ["next"]]
            spec["observe"] = "leaves"
        if shape in ("F1", "F2", "MC"):
            spec["mult"] = {"c": 2} if v["mult"] else {}
        if shape == "T2":
            spec["prefund"] = [[[], "s1", 24.0], [[], "s2", 8.0]]
        if shape == "T3":
            spec["prefund"] = [[[], "s1", 32.0], [["s1"], "s11", 16.0]]
        out.append(("%s/%s/%s" % (shape, al, vn), spec, ops_for(prop, shape, spec), depth))
    return out


def run(ctx, mod, prop):
    ctx.rule = "BFS over TreeDriver op sequences (cost/flow alphabet), every op preceded by a read; states deduplicated by the SHA-1 of every node's raw instance state; plus every run of the bounded run family"
    ctx.assumptions += [
        "executed trades are taken from a pass-through spy on SecurityBase.transact; prices, spreads and commissions from the driver's own tables/functions",
        "identities compared with |a-b| <= 1e-9*max(1,|a|,|b|,gross capital)",
        "an op refused by an explicit `raise` in bt (documented guard) is not a successor",
    ]
    kinds = ["py"] if ctx.tier == "quick" else ["py", "cy"]
    cfgs = configs(prop, ctx.tier, ctx.seed)
    ctx.bounds = {"bfs_configs": len(cfgs), "builds": kinds}
    for label, spec, ops, depth in cfgs:
        for kind in kinds:
            d = depth if kind == "py" else max(2, depth - 1)
            bfs.search(ctx, kind, mod, spec, ops, d, label="%s/%s" % (label, kind))
    from .. import runcheck

    runcheck.check_family(ctx, prop)
    if ctx.cov["states"] < 300:
        ctx.violation({"rule": "vacuity", "observed": "only %d states could be observed" % ctx.cov["states"], "expected": ">= 300"})
