"""Tables handed to a Backtest by name (additional_data) and read by SetStat / SelectWhere /
WeighTarget: what the algo sees on each date is the user's own row for exactly the date it asks
for, and nothing on dates the user's table does not have.  Shared by C14 (stat, where) and C15
(target)."""
import pandas as pd

from .. import rt, runfam as R


class Peek(object):
    """records what the stack left in temp when it got here (the driver's own tally)"""

    def __init__(self, key):
        self.key = key
        self.seen = []

    def __call__(self, target):
        v = target.temp.get(self.key)
        if v is None:
            got = None
        elif isinstance(v, (dict, pd.Series)):
            got = {str(k): float(x) for k, x in v.items()}
        else:
            got = [str(x) for x in v]
        self.seen.append((str(target.now), got))
        return True


def user_table(kind, variant, data):
    idx = data.index
    cols = list(data.columns)
    n = len(idx)
    if kind == "stat":
        full = pd.DataFrame({c: [float(((i * 7 + 3 * k) % 11) - 4) for i in range(n)] for k, c in enumerate(cols)}, index=idx)
        full.iloc[2, 1] = float("nan")
    elif kind == "where":
        full = pd.DataFrame({c: [((i + k) % 3) != 0 for i in range(n)] for k, c in enumerate(cols)}, index=idx)
    else:
        full = pd.DataFrame({c: [0.125 * (1 + (i + k) % 3) for i in range(n)] for k, c in enumerate(cols[:3])}, index=idx)
    if variant == "aligned":
        return full
    if variant == "sparse":
        return full.iloc[3::3]
    if variant == "late_start":
        # contiguous, but starts in mid-history on a date whose previous calendar day is a trading date
        k = [i for i in range(2, n) if (idx[i] - idx[i - 1]).days == 1][0]
        return full.iloc[k:]
    if variant == "longer":
        early = pd.DatetimeIndex([idx[0] - pd.Timedelta(days=3), idx[0] - pd.Timedelta(days=1)])
        pre = full.iloc[:2].copy()
        pre.index = early
        if kind == "stat":
            pre = pre * 0.0 + 9.0  # a stale top score published before the data starts
        return pd.concat([pre, full])
    raise KeyError(variant)


def named_case(item):
    bt = rt.bt()
    A = bt.algos
    kind, variant, lag = item
    data = R.table("d12", "exact", late=False)
    if variant == "intraday":
        # bars (and the user's rows) carry a time of day
        data.index = data.index + pd.Timedelta(hours=16)
    tab = user_table(kind, "aligned" if variant == "intraday" else variant, data)
    if kind == "stat":
        peek = Peek("selected")
        stack = [A.SetStat("tab", lag=pd.DateOffset(days=lag)), A.SelectN(2, filter_selected=False), peek]
    elif kind == "where":
        peek = Peek("selected")
        stack = [A.SelectWhere("tab"), peek]
    else:
        peek = Peek("weights")
        stack = [A.WeighTarget("tab"), peek]
    s = bt.Strategy("s", stack)
    b = bt.Backtest(s, data, progress_bar=False, additional_data={"tab": tab})
    b.run()
    # the copy inside the backtest
    seen = None
    for a in b.strategy.stack.algos:
        if isinstance(a, Peek):
            seen = dict(a.seen)
    viols = []
    n = 0
    for t in data.index:
        n += 1
        got_reached = str(t) in seen
        got = seen.get(str(t))
        if kind == "stat":
            t0 = t - pd.DateOffset(days=lag)
            if t0 in tab.index:
                row = tab.loc[t0].dropna().sort_values(ascending=False)
                exp = [str(x) for x in row.index[:2]]
                ok = got_reached and got is not None and sorted(got) == sorted(exp) and len(got) == len(exp)
                # ties at the cut: any of the tied names
                if got_reached and got is not None and not ok and len(got) == len(exp):
                    cut = row.iloc[len(exp) - 1] if len(exp) else None
                    ok = all(row[g] >= cut for g in got)
            else:
                exp = "nothing selected (no row of the user's table is dated %s)" % t0
                ok = (not got_reached) or got in ([], None)
        elif kind == "where":
            if t in tab.index:
                row = tab.loc[t]
                exp = sorted(str(c) for c in row.index if bool(row[c]) is True and data.loc[t, c] > 0)
                ok = got_reached and got is not None and sorted(got) == exp
            else:
                exp = None
                ok = got_reached and got is None
        else:
            if t in tab.index:
                exp = {str(k): float(v) for k, v in tab.loc[t].dropna().items()}
                ok = got_reached and got == exp
            else:
                # no row for this date: the stack stops here (or goes on with no weights set)
                exp = None
                ok = (not got_reached) or got is None
        if not ok:
            viols.append({"rule": "named_table_row", "expected": {"date": str(t), "algo": kind, "table": variant, "lag_days": lag, "sees": exp}, "observed": {"reached": got_reached, "sees": got}})
            break
    return (n, viols)
