"""C01 - balance-sheet identity at every node; recorded rows = end-of-date state."""
from .. import alpha, bfs, ref, rt, tree as T

MOD = "btmc.props.c01"
OBSERVE = False  # prefixes are replayed with no reads: pending (stale) state accumulates


def pre(t, op):
    if op[0] == "next":
        # end-of-date state of the date about to be left (read -> refreshed)
        return {"snap": T.snapshot(t), "label": str(t.root.now)}
    return None


def post(t, op, pre_state):
    out = []
    if t.spec.get("observe") == "leaves":
        # the first reads after the op are the accessors of the securities (dormant ones included),
        # only then the strategies': whoever is read first has to bring the whole tree up to date
        for n in reversed(list(t.root.members)):
            if isinstance(n, rt.bt().core.StrategyBase) and n is not t.root:
                # a sub-strategy's recorded series are the very first thing read
                n.values
                n.prices
                break
        for n in reversed(list(t.root.members)):
            n.weight
            n.value
    scale = T.gross(t)
    snap = T.snapshot(t)
    # the tree's clock is the driver's, and an open position is marked at the driver's price of that date
    if str(t.root.now) != str(t.dates[t.i]):
        out.append({"rule": "clock", "expected": {"now": str(t.dates[t.i])}, "observed": str(t.root.now)})
    for name in snap["__order__"]:
        n = snap[name]
        if n["kind"] == "X" and n["position"] != 0.0:
            px = float(t.data[n["name"]].values[t.i])
            if not (n["price"] == px or (px != px and n["price"] != n["price"])):
                out.append({"rule": "security_marked_at_todays_price", "expected": {"node": name, "date": str(t.dates[t.i]), "price": px}, "observed": n["price"]})
    for rule, node, exp, obs in ref.balance_sheet(snap, scale):
        out.append({"rule": rule, "expected": {"node": node, "value": exp}, "observed": obs})
    hist = T.histories(t)
    now = str(t.root.now)
    # rows recorded for the current date equal the state just observed
    out += _rows(snap, hist, now, scale, "row_now")
    if pre_state is not None:
        # rows recorded for the date just left equal its end-of-date state
        out += _rows(pre_state["snap"], hist, pre_state["label"], scale, "row_end_of_date")
    return out


def _rows(snap, hist, label, scale, rule):
    out = []
    for name in snap["__order__"]:
        n = snap[name]
        if name not in hist:
            continue
        pairs = [("values", n["value"]), ("notional_values", n["notl"])]
        if n["kind"] == "S":
            pairs += [("cash", n["capital"]), ("prices", n["price"])]
        else:
            pairs += [("positions", n["position"])]
        for series, val in pairs:
            r = T.row(hist, name, series, label)
            if r is None:
                out.append({"rule": rule, "expected": {"node": name, "series": series, "label": label, "value": val}, "observed": "no row"})
            elif not ref.near(r, val, scale):
                out.append({"rule": rule, "expected": {"node": name, "series": series, "label": label, "value": val}, "observed": r})
    return out


def run_rows_case(spec):
    """every date of a finished backtest: recorded value = recorded cash + children's recorded values,
    security value = position x price x multiplier, from the recorded rows"""
    from .. import runcheck

    res = runcheck.execute(spec)
    if res["status"] == "guard":
        return ("refused", [], 0)
    if runcheck.known_dead(spec, res):
        return ("refused", [], 0)
    if res["status"] == "crash":
        return ("crash", [{"rule": "crash", "observed": res["err"]}], 0)
    h = res["hist"]
    scale = float(spec.get("capital", 1e6))
    viols = []
    for name, d in h.items():
        labels = d["values"][0]
        if d["__kind__"] == "S":
            kids = [k for k in h if h[k]["__parent__"] == name]
            for i, lab in enumerate(labels):
                tot = d["cash"][1][i]
                for k in kids:
                    kl = h[k]["values"][0]
                    if lab in kl:
                        tot += h[k]["values"][1][kl.index(lab)]
                if not ref.near(d["values"][1][i], tot, scale):
                    viols.append({"rule": "row_strategy_value", "expected": {"node": name, "date": lab, "value": tot}, "observed": d["values"][1][i]})
                    break
        else:
            for i, lab in enumerate(labels):
                p = d["prices"][1][i]
                pos = d["positions"][1][i]
                exp = 0.0 if (p != p and pos == 0.0) else pos * p * d["__mult__"]
                if not ref.near(d["values"][1][i], exp, scale):
                    viols.append({"rule": "row_security_value", "expected": {"node": name, "date": lab, "value": exp}, "observed": d["values"][1][i]})
                    break
    # the position row of a date is the position at the end of that date: previous row + the date's executed trades
    traded = {}
    for sec, owner, tick, q, price, mult, when in res["trades"]:
        traded.setdefault(sec, {})
        traded[sec][when] = traded[sec].get(when, 0.0) + q
    for name, d in h.items():
        if d["__kind__"] != "X":
            continue
        labels, pos = d["positions"]
        for i, lab in enumerate(labels):
            prev = pos[i - 1] if i else 0.0
            exp = prev + traded.get(name, {}).get(lab, 0.0)
            if not ref.near(pos[i], exp, max(1.0, abs(exp))):
                viols.append({"rule": "row_position_end_of_date", "expected": {"node": name, "date": lab, "position": exp, "previous_row": prev, "traded_on_the_date": traded.get(name, {}).get(lab, 0.0)}, "observed": pos[i]})
                break
    return ("ok", viols[:4], len(res["trades"]))


def replay(case):
    if case.get("driver") == "run":
        return run_rows_case(case["spec"])[1]
    return bfs.replay_case(MOD, case)


def configs(tier, seed):
    """(label, kinds, spec, ops, depth)"""
    out = []
    quick = tier == "quick"
    variants = [
        {"integer": True, "fee": None, "spread": None, "mult": {}},
        {"integer": False, "fee": "flat", "spread": 0.5, "mult": {"a": 2}},
        {"integer": True, "fee": "flat", "spread": 0.5, "mult": {"a": 2}},
        {"integer": False, "fee": None, "spread": None, "mult": {}},
    ]
    shapes = [("T1", 3 if quick else 4), ("T2", 3 if quick else 4), ("T3", 2 if quick else 4)]
    alphas = ["exact"] if quick else ["exact", "decimal"]
    # the quick tier rotates which two variants it runs; thorough runs all
    vs = [variants[seed % 4], variants[(seed + 1) % 4]] if quick else variants
    for shape, depth in shapes:
        for al in alphas:
            for vi, v in enumerate(vs):
                spec = dict(v, shape=shape, alpha=al, capital=64.0, ndates=4)
                ops = alpha.base_ops(shape) + [["next_raw"]]
                d = depth
                if quick and vi == 1:
                    d = max(2, depth - 1)
                if (not quick) and (al == "decimal" or vi >= 2):
                    d = 3  # (depth 4 on the exact tables for two cost models only: the tier has to fit into an hour)
                out.append(("%s/%s/%s" % (shape, al, _vname(v)), spec, ops, d))
    # a price path touching exactly zero (positions stay open at zero value) and recovering
    for vi, v in enumerate(vs[:2] if quick else variants):
        spec = dict(v, shape="T1", alpha="exact", capital=64.0, ndates=4, prices={"a": [4.0, 0.0, 2.0, 0.0], "b": [1.0, 2.0, 0.0, 1.0]})
        out.append(("T1/zero/%s" % _vname(v), spec, alpha.base_ops("T1") + [["next_raw"]], 3 if quick else 4))
        # ... and from a non-initial state: a position is open while the price sits at zero twice
        spec = dict(v, shape="T1", alpha="exact", capital=64.0, ndates=4, prices={"a": [4.0, 0.0, 0.0, 2.0], "b": [1.0, 2.0, 0.0, 1.0]}, preops=[["transact", [], "a", 3.0], ["next"]])
        out.append(("T1/zero2/%s" % _vname(v), spec, alpha.base_ops("T1") + [["next_raw"]], 2 if quick else 3))
    # a security that was held, closed and has been skipped for two dates; after every op the securities are read first
    for vi, v in enumerate(vs[:1] if quick else variants[:2]):
        spec = dict(v, shape="T1", alpha="exact", capital=64.0, ndates=6, observe="leaves", preops=[["transact", [], "a", 3.0], ["next"], ["close", [], "a"], ["next"], ["next"]])
        out.append(("T1/dormant/%s" % _vname(v), spec, alpha.base_ops("T1") + [["next_raw"]], 2 if quick else 3))
    # the same order of reads (sub-strategies' histories and securities first) on a nested tree
    spec = dict(vs[0], shape="T2", alpha="exact", capital=64.0, ndates=4, observe="leaves", prefund=[[[], "s1", 24.0], [[], "s2", 8.0]])
    out.append(("T2/leaves/%s" % _vname(vs[0]), spec, alpha.base_ops("T2") + [["next_raw"]], 2 if quick else 3))
    # deliveries: fills at a custom price of exactly zero with bid/offer accounting on - no cash moves at all
    for integer in ((False,) if quick else (False, True)):
        spec = {"integer": integer, "fee": None, "spread": 0.5, "mult": {"a": 2}, "shape": "T1", "alpha": "exact", "capital": 64.0, "ndates": 4}
        out.append(("T1/delivery/%s" % ("int" if integer else "frac"), spec, alpha.base_ops("T1") + [["next_raw"], ["sectransact", ["a"], 2.0, 0.0], ["sectransact", ["b"], -3.0, 0.0]], 2 if quick else 3))
    # a coupon-paying security marked to market (fixed_income=False) with a contract multiplier
    from . import _ledger_run

    for vi, v in enumerate(vs[:1] if quick else variants[:2]):
        spec = dict(v, shape="MC", alpha="exact", capital=64.0, ndates=4, mult={"c": 4, "e": 2})
        out.append(("MC/%s" % _vname(v), spec, _ledger_run.ops_for("C01", "MC", spec), 3))
    return out


def _vname(v):
    return "%s,fee=%s,spread=%s,mult=%s" % ("int" if v["integer"] else "frac", v["fee"], v["spread"], "a2" if v["mult"] else "1")


def run(ctx):
    ctx.rule = "BFS over TreeDriver op sequences, deduplicated by the SHA-1 of every node's raw instance state; a state is non-trivial if it is a distinct reachable state other than the initial one"
    ctx.assumptions += [
        "identities compared with |a-b| <= 1e-9*max(1,|a|,|b|,gross capital)",
        "an op refused by an explicit `raise` in bt (documented guard) is not a successor",
        "FI trees are covered by C17",
    ]
    kinds = ["py", "cy"]
    cfgs = configs(ctx.tier, ctx.seed)
    ctx.bounds = {"configs": len(cfgs), "builds": kinds}
    for label, spec, ops, depth in cfgs:
        for kind in kinds:
            if kind == "cy" and ctx.tier == "quick" and depth > 2:
                depth_k = depth - 1
            else:
                depth_k = depth
            bfs.search(ctx, kind, MOD, spec, ops, depth_k, label="%s/%s" % (label, kind))
    from .. import runfam as R

    fam = R.family("quick", ctx.seed) if ctx.tier == "quick" else R.family("thorough", ctx.seed)[::5]
    for kind in kinds:
        use = fam if kind == "py" else fam[::3]
        for spec, (status, viols, ntr) in ctx.run(kind, MOD, "run_rows_case", use, chunksize=4):
            ctx.add(transitions=1, traces_validated_against_impl=1, evaluations=1)
            if status == "ok":
                ctx.add(states=1)
                if ntr:
                    ctx.nontrivial_count += 1
            for v in viols:
                ctx.violation(dict(v, build=kind, module=MOD, case={"driver": "run", "spec": spec}))
    ctx.extra["run_family_rows"] = len(fam)
    if ctx.cov["states"] < 500:
        ctx.violation({"rule": "vacuity", "observed": "only %d states could be observed" % ctx.cov["states"], "expected": ">= 500"})
