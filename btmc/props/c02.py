"""C02 - ledger oracle on the BFS over TreeDriver operations (part i); the run-family
part (ii) is in btmc.runfam."""
from .. import alpha, bfs, ledger, tree as T

MOD = "btmc.props.c02"
PROP = "C02"
OBSERVE = True


def pre(t, op):
    return ledger.pre(t, op)


def post(t, op, st):
    return ledger.post(t, op, st, {PROP})


def replay(case):
    if case.get("driver") in ("run", "scaled"):
        from .. import runcheck

        return runcheck.replay(PROP, case)
    return bfs.replay_case(MOD, case)


def run(ctx):
    from . import _ledger_run

    _ledger_run.run(ctx, MOD, PROP)
