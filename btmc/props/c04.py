"""C04 - no look-ahead: results up to a date ignore all later data.

Explorer: `product` - strategies of the run family (every algo with a lookback, lag, signal,
target-weight, stat, coupon, unit-risk or bid/offer input; nested trees; a fixed-income tree)
x cut date t x perturbation of every supplied table after t; oracle: bit-for-bit equality of
every node's recorded history truncated at t."""
import json

import numpy as np
import pandas as pd

from .. import rt, runcheck, runfam as R

MOD = "btmc.props.c04"


def histories_upto(b, cut):
    """every recorded series of every node, rows with label <= cut, as bytes-exact floats"""
    bt = rt.bt()
    h = R.run_histories(b)
    cut = str(pd.Timestamp(cut))
    out = {}
    for name, d in h.items():
        for s, v in d.items():
            if s.startswith("__"):
                continue
            labs, vals = v
            out[(name, s)] = [(l, x) for l, x in zip(labs, vals) if l <= cut]
    # reports
    try:
        tx = b.strategy.get_transactions()
        rows = []
        for (d, sname), row in tx.iterrows():
            if str(d) <= cut:
                rows.append((str(d), str(sname), float(row["quantity"]), float(row["price"])))
        out[("__report__", "transactions")] = rows
    except Exception:
        pass
    try:
        w = b.weights
        for c in w.columns:
            out[("__report__", "weights:" + str(c))] = [(str(l), float(x)) for l, x in zip(w.index, w[c].values) if str(l) <= cut]
    except Exception:
        pass
    return out


def eq(x, y):
    return x == y or (isinstance(x, float) and isinstance(y, float) and x != x and y != y)


def compare(base, pert):
    for key in sorted(set(base) | set(pert), key=str):
        a, b = base.get(key), pert.get(key)
        if a is None or b is None:
            # a node that exists in only one run (created lazily after t) equals an all-zero history
            present = a if a is not None else b
            if key[0] == "__report__":
                if any(r[1] != 0.0 and r[1] == r[1] for r in present if len(r) == 2):
                    return key, a, b
                continue
            if key[1] == "prices":
                continue
            if any(x != 0.0 and x == x for _, x in present):
                return key, a, b
            continue
        if len(a) != len(b):
            return key, a, b
        for ra, rb in zip(a, b):
            if len(ra) != len(rb) or any(not eq(p, q) for p, q in zip(ra, rb)):
                return key, ra, rb
    return None


def case(item):
    spec, cuts, kinds = item
    base = runcheck.execute(spec)
    if base["status"] == "crash" and spec.get("tree") == "fi_hedge":
        # (these fixed-income runs are this check's own: nobody else would see them die)
        return ("base_crash", [{"rule": "crash", "expected": "the unperturbed run completes", "observed": base["err"], "where": {"cut": -1, "kind": ["base"]}}], 0, 0)
    if base["status"] != "ok":
        return ("base_" + base["status"], [], 0, 0)
    b0 = base["b"]
    idx = list(base["info"]["data"].index)
    viols = []
    n = differ = 0
    cache = {}
    for ci in cuts:
        if ci >= len(idx) - 1:
            continue
        cut = idx[ci]
        if ci not in cache:
            cache[ci] = histories_upto(b0, cut)
        for kind in kinds:
            p = {"cut": str(cut), "kind": kind[0]}
            if len(kind) > 1:
                p["cell"] = list(kind[1])
            if len(kind) > 2:
                p["table"] = kind[2]
            sp = dict(spec, perturb=p)
            r = runcheck.execute(sp)
            if r["status"] == "guard":
                continue  # the perturbed data is not well formed for this strategy
            if r["status"] == "crash":
                continue
            n += 1
            hp = histories_upto(r["b"], cut)
            d = compare(cache[ci], hp)
            # was the perturbation visible at all (later rows differ)?
            full0 = R.run_histories(b0)
            full1 = R.run_histories(r["b"])
            if json.dumps(full0, sort_keys=True, default=str) != json.dumps(full1, sort_keys=True, default=str):
                differ += 1
            if d is not None:
                key, x, y = d
                viols.append({"rule": "past_depends_on_future", "expected": {"cut": str(cut), "perturbation": p, "series": list(key), "value": x}, "observed": y, "where": {"cut": ci, "kind": list(kind)}})
    return ("ok", viols[:4], n, differ)


def _blotter(variant, order, idx):
    """a fill / request table on (Date, Security): bar stamps or intraday stamps, with rows after the last bar"""
    rows = []
    q = {"a": [4.0, -2.0, 8.0, -6.0, 2.0, 4.0, -8.0], "b": [-2.0, 6.0, 0.0, 4.0, -4.0, 2.0, 2.0]}
    n = len(idx)
    for k, tick in enumerate(("a", "b")):
        for j in range(7):
            i = (2 * j + k) % (n + 2)  # may land after the last bar
            base = idx[i] if i < n else idx[-1] + pd.Timedelta(days=i - n + 1)
            stamp = base if variant == "bars" else base - pd.Timedelta(hours=7 - 2 * k) if variant == "intraday" else (base + pd.Timedelta(hours=17) if i == n - 1 else base)
            if q[tick][j]:
                rows.append((stamp, tick, q[tick][j], 4.0 + j / 4.0 + k))
    if order == "sorted":
        rows.sort(key=lambda r: (r[0], r[1]))
    elif order == "reversed":
        rows.sort(key=lambda r: (r[0], r[1]), reverse=True)
    elif order == "interleaved":
        rows = rows[::2] + rows[1::2]
    # "grouped": per-security blocks as built
    mi = pd.MultiIndex.from_tuples([(r[0], r[1]) for r in rows], names=["Date", "Security"])
    return pd.DataFrame({"quantity": [r[2] for r in rows], "price": [r[3] for r in rows]}, index=mi)


def _rfq_model(rfqs, target):
    out = rfqs[["quantity", "price"]].copy()
    out["price"] = out["price"] + 0.25
    return out


def blotter_case(item):
    """ReplayTransactions / SimulateRFQTransactions over a user-supplied table in any row order: rows
    stamped after t (changed, or removed) never change what is recorded up to t"""
    bt = rt.bt()
    A = bt.algos
    algo, variant, order, pert = item
    data = R.table("d12", "exact", late=False)[["a", "b"]]
    idx = data.index
    tab = _blotter(variant, order, idx)

    def run_one(t):
        if algo == "replay":
            st = [A.ReplayTransactions("tx")]
        else:
            st = [A.SimulateRFQTransactions("tx", _rfq_model)]
        s = bt.Strategy("r", st, [bt.Security("a"), bt.Security("b")])
        b = bt.Backtest(s, data, initial_capital=1024.0, integer_positions=False, progress_bar=False, additional_data={"tx": t, "bidoffer": pd.DataFrame(0.0, index=idx, columns=["a", "b"])})
        b.run()
        return b

    viols = []
    n = differ = 0
    try:
        b0 = run_one(tab)
    except Exception as e:
        return ("ok", [{"rule": "crash", "expected": "the base run over a well-formed table completes", "observed": rt.describe(e), "where": {"cut": -1}}], 0, 0)
    full0 = json.dumps(R.run_histories(b0), sort_keys=True, default=str)
    traded = sum(1 for x in b0.strategy["a"].positions.values if x != 0.0)
    for ci in range(len(idx)):
        cut = idx[ci]
        stamps = tab.index.get_level_values("Date")
        later = stamps > cut
        if not later.any():
            continue
        t = tab.copy()
        if pert == "scale":
            t.loc[later, "quantity"] = t.loc[later, "quantity"] * 2.0 + 1.0
            t.loc[later, "price"] = t.loc[later, "price"] * 1.5
        elif pert == "drop":
            t = t[~later]
        else:  # negate
            t.loc[later, "quantity"] = -t.loc[later, "quantity"]
        try:
            b1 = run_one(t)
        except Exception as e:
            if rt.classify(e) == "guard":
                continue
            viols.append({"rule": "crash", "observed": rt.describe(e), "where": {"cut": ci}})
            continue
        n += 1
        if json.dumps(R.run_histories(b1), sort_keys=True, default=str) != full0:
            differ += 1
        d = compare(histories_upto(b0, cut), histories_upto(b1, cut))
        if d is not None:
            key, x, y = d
            viols.append({"rule": "past_depends_on_future", "expected": {"cut": str(cut), "table": "transactions / requests stamped after the cut: " + pert, "series": list(key), "value": x}, "observed": y, "where": {"cut": ci}})
    if not traded:
        viols.append({"rule": "vacuity", "expected": "the table produces trades", "observed": "no position was ever opened", "where": {"cut": -1}})
    return ("ok", viols[:4], n, differ)


def events_case(item):
    """tables on their own stamps that fall between bars: target weights / signals stamped later in
    the day than the bar, close and roll dates on a week-end.  Entries stamped after t (changed,
    moved later, or removed) never change what is recorded up to t"""
    bt = rt.bt()
    A = bt.algos
    kind, pert = item
    if kind in ("target_intraday", "where_intraday"):
        days = pd.bdate_range("2020-01-06", periods=6)
        idx = pd.DatetimeIndex([d + pd.Timedelta(hours=h) for d in days for h in (10, 15)])
    else:
        idx = pd.bdate_range("2020-01-06", periods=12)
    n = len(idx)
    data = pd.DataFrame({"a": [8.0 + (i * 3) % 5 for i in range(n)], "b": [4.0 + (i * 5) % 3 for i in range(n)], "d": [6.0 + (i * 2) % 7 for i in range(n)]}, index=idx, dtype=float)

    def tables(p):
        """p = None (base) or (cut, pert): the user's tables with the entries after the cut perturbed"""
        cut = p[0] if p else None
        if kind == "target_intraday":
            # one row per day, stamped at the day's second bar or after the close
            rows = {}
            for k, d in enumerate(days):
                stamp = d + pd.Timedelta(hours=15 if k % 2 == 0 else 18)
                rows[stamp] = {"a": 0.125 * (1 + k % 3), "b": 0.25, "d": 0.125 * (k % 2)}
            t = pd.DataFrame(rows).T
        elif kind == "where_intraday":
            rows = {}
            for k, d in enumerate(days):
                stamp = d + pd.Timedelta(hours=15 if k % 2 == 0 else 18)
                rows[stamp] = {"a": k % 3 != 0, "b": k % 2 == 0, "d": k % 3 != 1}
            t = pd.DataFrame(rows).T.astype(bool)
        elif kind == "pte_frame":
            # target weights that change from date to date, handed to PTE_Rebalance as a frame
            t = pd.DataFrame({"a": [0.25 + 0.0625 * (i % 5) for i in range(n)], "b": [0.5 - 0.0625 * (i % 4) for i in range(n)], "d": [0.125] * n}, index=idx)
        elif kind == "close_between":
            # close dates on a Saturday and a Sunday
            t = pd.DataFrame({"date": [pd.Timestamp("2020-01-11"), pd.Timestamp("2020-01-19")]}, index=["a", "b"])
        else:
            t = pd.DataFrame({"date": [pd.Timestamp("2020-01-11"), pd.Timestamp("2020-01-18")], "target": ["d", "d"], "factor": [2.0, 0.5]}, index=["a", "b"])
        if cut is None:
            return t
        if kind == "pte_frame":
            later = t.index > cut
            if not later.any():
                return None
            t = t.copy()
            if p[1] == "drop":
                t.loc[later, :] = 1.0 / 3.0
            else:
                t.loc[later, :] = t.loc[later, :].values[:, ::-1]
            return t
        if kind in ("target_intraday", "where_intraday"):
            later = t.index > cut
            if not later.any():
                return None
            if p[1] == "drop":
                return t[~later]
            t = t.copy()
            if kind == "target_intraday":
                t.loc[later, :] = t.loc[later, :].values[:, ::-1] * 0.5
            else:
                t.loc[later, :] = ~t.loc[later, :]
            return t
        later = t["date"] > cut
        if not later.any():
            return None
        t = t.copy()
        if p[1] == "drop":
            return t[~later]
        t.loc[later, "date"] = t.loc[later, "date"] + pd.Timedelta(days=3)
        if "factor" in t.columns:
            t.loc[later, "factor"] = t.loc[later, "factor"] * 3.0
        return t

    def run_one(t):
        if kind == "target_intraday":
            st = [A.WeighTarget("tab"), A.Rebalance()]
        elif kind == "where_intraday":
            st = [A.SelectAll(), A.SelectWhere("tab"), A.WeighEqually(), A.Rebalance()]
        elif kind == "pte_frame":
            st = [A.Or([A.RunOnce(), A.PTE_Rebalance(0.05, t, lookback=pd.DateOffset(days=6))]), A.SelectAll(), A.WeighEqually(), A.Rebalance()]
        elif kind == "close_between":
            st = [A.ClosePositionsAfterDates("tab"), A.RunOnce(), A.SelectThese(["a", "b"]), A.WeighEqually(), A.Rebalance()]
        else:
            st = [A.RollPositionsAfterDates("tab"), A.RunOnce(), A.SelectThese(["a", "b"]), A.WeighEqually(), A.Rebalance()]
        s = bt.Strategy("r", st, [bt.Security("a"), bt.Security("b"), bt.Security("d")])
        b = bt.Backtest(s, data, initial_capital=4096.0, integer_positions=False, progress_bar=False, additional_data={"tab": t})
        b.run()
        return b

    viols = []
    n_runs = differ = 0
    try:
        b0 = run_one(tables(None))
    except Exception as e:
        return ("ok", [{"rule": "crash", "expected": "the base run over a well-formed table completes", "observed": rt.describe(e), "where": {"cut": -1}}], 0, 0)
    full0 = json.dumps(R.run_histories(b0), sort_keys=True, default=str)
    for ci in range(len(idx)):
        cut = idx[ci]
        t = tables((cut, pert))
        if t is None:
            continue
        try:
            b1 = run_one(t)
        except Exception as e:
            if rt.classify(e) == "guard":
                continue
            viols.append({"rule": "crash", "observed": rt.describe(e), "where": {"cut": ci}})
            continue
        n_runs += 1
        if json.dumps(R.run_histories(b1), sort_keys=True, default=str) != full0:
            differ += 1
        d = compare(histories_upto(b0, cut), histories_upto(b1, cut))
        if d is not None:
            key, x, y = d
            viols.append({"rule": "past_depends_on_future", "expected": {"cut": str(cut), "table": "%s: entries stamped after the cut: %s" % (kind, pert), "series": list(key), "value": x}, "observed": y, "where": {"cut": ci}})
    return ("ok", viols[:4], n_runs, differ)


def replay(c):
    if c.get("kind") == "events":
        return events_case(tuple(c["item"]))[1]
    if c.get("kind") == "blotter":
        return blotter_case(tuple(c["item"]))[1]
    return case((c["spec"], [c["where"]["cut"]], [tuple(c["where"]["kind"][:1]) + tuple(tuple(x) if isinstance(x, list) else x for x in c["where"]["kind"][1:])]))[1]


def specs(tier, seed):
    fam = R.family("quick", seed)
    out = []
    for s in fam:
        if s["tree"] in ("flat_eager_m",):
            continue
        out.append(s)
    # spreads, sparse statistic, fixed-income tree with coupons, carry, notional and unit-risk tables
    for st in R.stacks("quick")[:6]:
        out.append({"tree": "flat", "stack": st, "data": "d12", "alpha": "exact", "integer": False, "capital": 1e6, "rng": 0, "fee": None, "spread": 0.5})
    for g in ("daily", "weekly", "everyn"):
        for w in ({"a": 0.5, "b": 0.5}, {"a": 0.75, "b": -0.25}):
            for data in ("d12", "d25"):
                out.append({"tree": "fi_hedge", "stack": {"gate": g}, "fi_weights": w, "data": data, "alpha": "exact", "late": False, "integer": False, "capital": 0.0, "rng": 0, "fee": None, "spread": None})
                out.append({"tree": "fi_hedge", "stack": {"gate": g}, "fi_weights": w, "data": data, "alpha": "decimal", "late": False, "integer": False, "capital": 0.0, "rng": 0, "fee": "propdec", "spread": 0.25})
                out.append({"tree": "fi_hedge", "stack": {"gate": g}, "fi_weights": w, "plain_cost_index": True, "data": data, "alpha": "exact", "late": False, "integer": False, "capital": 0.0, "rng": 0, "fee": None, "spread": None})
    # price levels in the thousands, whole units, nested trees (paper-trading copies): whatever a node's set-up
    # derives from the whole table (a maximum, a mean) moves with the quotes after the cut
    for tree in ("nested", "deep", "nested_sel"):
        for g in ("daily", "weekly"):
            for fee in (None, "propdec"):
                out.append({"tree": tree, "stack": {"gate": g}, "data": "d12", "alpha": "exact", "late": False, "integer": True, "capital": 1e6, "rng": 0, "fee": fee, "spread": None, "price_scale": 512.0})
    if tier != "quick":
        more = [s for s in R.family("thorough", seed) if s["tree"] != "flat" or s["data"] == "d6"]
        out += more[::8]
    return out


def run(ctx):
    ctx.rule = "strategies of the run family x cut dates x perturbations (affine rescale, reversal of the future rows, column rotation; thorough: every single future cell of the 6-date tables) applied to every supplied table after the cut; transaction / RFQ tables (bar, intraday and after-the-last-bar stamps x row orders) with every row after the cut changed, negated or removed, at every cut including the last bar; target-weight / signal tables stamped between intraday bars and close / roll dates on week-ends, entries after the cut changed, moved or removed; a case is non-trivial if the perturbed run completed and differs from the base run somewhere"
    ctx.assumptions += [
        "perturbations change values only, never the index (end-of-period schedulers look at the next date label by design)",
        "a perturbed data set on which the strategy raises a documented guard is not well formed and is skipped",
        "a node that exists in only one of the two runs (created lazily after t) is equal to an all-zero history up to t",
    ]
    sp = specs(ctx.tier, ctx.seed)
    kinds = ["py"] if ctx.tier == "quick" else ["py", "cy"]
    items = []
    for s in sp:
        n = len(R.dates(s.get("data", "d6")))
        st = s.get("stack") or {}
        table_driven = st.get("select") in ("statn", "statn_lag", "statn_sparse", "where") or st.get("weigh") == "target" or s.get("tree") == "fi_hedge"
        if ctx.tier == "quick" and table_driven and s.get("tree") in ("flat", "fi_hedge"):
            # inputs on their own (sparse / irregular) calendars: every cut date
            cuts = list(range(0, n - 1))
            pk = [("scale",), ("reverse",)]
        elif ctx.tier == "quick":
            cuts = sorted(set([1, n // 2, n - 3]))
            pk = [("scale",), ("reverse",), ("swap",)]
        else:
            cuts = list(range(0, n - 1))
            pk = [("scale",), ("reverse",), ("swap",)]
            if s.get("data") == "d6":
                pk += [("cell", (i, k)) for i in range(4) for k in range(4)]
        items.append((s, cuts, pk))
    blot = [(a, v, o, p) for a in ("replay", "rfq") for v in ("bars", "intraday", "evening") for o in ("sorted", "grouped", "reversed", "interleaved") for p in ("scale", "drop", "negate")]
    ctx.bounds = {"strategies": len(sp), "blotter_cases": len(blot), "builds": kinds}
    for kind in kinds:
        use = items if kind == "py" else items[::3]
        tot = nt = 0
        for item, (status, viols, n, differ) in ctx.run(kind, MOD, "case", use, chunksize=1):
            ctx.add(states=1 if status == "ok" else 0, transitions=n + 1, traces_validated_against_impl=n + 1, evaluations=n, refused=0 if status == "ok" else 1)
            tot += n
            nt += differ
            for v in viols:
                ctx.violation(dict(v, build=kind, module=MOD, case={"spec": item[0], "where": v["where"]}))
        for item, (status, viols, n, differ) in ctx.run(kind, MOD, "blotter_case", blot, chunksize=1):
            ctx.add(states=1 if status == "ok" else 0, transitions=n + 1, traces_validated_against_impl=n + 1, evaluations=n, refused=0 if status == "ok" else 1)
            tot += n
            nt += differ
            for v in viols:
                ctx.violation(dict(v, build=kind, module=MOD, case={"kind": "blotter", "item": list(item), "where": v.get("where")}))
        evs = [(k, p) for k in ("target_intraday", "where_intraday", "close_between", "roll_between", "pte_frame") for p in ("change", "drop")]
        for item, (status, viols, n, differ) in ctx.run(kind, MOD, "events_case", evs, chunksize=1):
            ctx.add(states=1, transitions=n + 1, traces_validated_against_impl=n + 1, evaluations=n)
            tot += n
            nt += differ
            for v in viols:
                ctx.violation(dict(v, build=kind, module=MOD, case={"kind": "events", "item": list(item), "where": v.get("where")}))
        ctx.nontrivial_count += nt
        ctx.extra.setdefault("pairs", []).append({"build": kind, "strategies": len(use), "perturbed_runs_compared": tot, "of_which_differ_after_the_cut": nt})
        if tot and nt < 0.3 * tot:
            ctx.violation({"rule": "vacuity", "build": kind, "observed": "only %d of %d perturbed runs differ from their base run at all" % (nt, tot), "expected": ">= 30%"})
    ctx.sample({"spec": sp[3], "cut_index": 3, "perturbation": "reverse"})
