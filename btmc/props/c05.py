"""C05 - allocating cash to a security respects the budget, costs included.

Explorer: `product` - the full Cartesian grid price x multiplier x position x amount x
spread x fee x mode (x build); oracle: brute-force "largest affordable quantity"."""
import itertools
import math

import numpy as np
import pandas as pd

from .. import ref, rt, tree as T
from ..findings import predicate

MOD = "btmc.props.c05"

CAP = 1.0e7  # enough cash in the parent for every request of the grid


def spread2(spread):
    """the spread of the third date: the price is unchanged, the spread is not"""
    return None if spread is None else (0.25 if spread == 0.0 else spread * 0.5)


def _tree(p, m, spread, fee, integer, p_prev=None):
    bt = rt.bt()
    idx = pd.DatetimeIndex(["2020-01-01", "2020-01-02", "2020-01-03"])
    data = pd.DataFrame({"x": [p if p_prev is None else p_prev, p, p]}, index=idx, dtype=float)
    root = bt.Strategy("r", [], [bt.Security("x", multiplier=m)])
    root.use_integer_positions(integer)
    spy = None
    if fee not in (None, "none"):
        spy = T.FeeSpy(fee)
        root.set_commissions(spy)
    kw = {}
    if spread is not None:
        kw["bidoffer"] = pd.DataFrame({"x": [float(spread), float(spread), float(spread2(spread))]}, index=idx)
    root.setup(data, **kw)
    root.adjust(CAP)
    root.update(idx[0])
    root.update(idx[1])
    return root, spy


def _reset(root, pos):
    sec = root["x"]
    d = pos - sec.position
    if d != 0:
        sec.transact(d)
    root.update(root.now)
    root.adjust(CAP - root.capital)
    root.update(root.now)


def evaluate(root, pos, amount, p, m, spread, feename, integer):
    """one allocate call on the real objects -> observation dict"""
    sec = root["x"]
    _reset(root, pos)
    c0, p0 = root.capital, sec.position
    v0 = sec.value
    try:
        root.allocate(amount, child="x")
        root.update(root.now)
    except Exception as e:
        g = rt.guard_id(e)
        try:
            # leave the tree usable for the next point
            sec._position = p0
            root._capital = c0
            root.stale = True
        except Exception:
            pass
        return {"raised": g or ("crash:" + rt.describe(e))}
    return {"q": sec.position - p0, "spent": c0 - root.capital, "pos1": sec.position, "value0": v0}


def judge(obs, pos, amount, p, m, spread, feename, integer):
    """-> (rule, expected) if the observation violates the property, else None"""
    fee = T.fee_fn(feename)
    bad_price = (p != p) or p == 0.0
    if amount == 0.0:
        if "raised" in obs or obs["q"] != 0.0 or abs(obs["spent"]) > 0:
            return ("zero_amount_does_nothing", {"q": 0.0, "spent": 0.0})
        return None
    if bad_price:
        if "raised" not in obs:
            return ("bad_price_must_raise", "an error")
        return None
    if not ref.fee_in_domain(p, m, spread, fee):
        return None  # outside the property's domain (not counted)
    value = pos * p * m
    dust = pos != 0.0 and amount != -value and abs(amount + value) <= 1e-12 * abs(value)
    if dust and "raised" not in obs and obs["pos1"] == 0.0:
        # the amount equals minus the value up to float dust: closing completely is one of the
        # two admissible readings (the other, meeting the budget, is judged below)
        q = -pos
        exp_spent = ref.trade_cost(q, p, m, spread, fee)
        if not (abs(obs["spent"] - exp_spent) <= 1e-9 * max(1.0, abs(exp_spent))):
            return ("booked_cost", {"q": q, "spent": exp_spent})
        return None
    if amount == -value and pos != 0.0:
        if "raised" in obs or obs["pos1"] != 0.0:
            return ("closing_amount_closes", {"position_after": 0.0})
        q = -pos
        exp_spent = ref.trade_cost(q, p, m, spread, fee)
        if not (abs(obs["spent"] - exp_spent) <= 1e-9 * max(1.0, abs(exp_spent))):
            return ("booked_cost", {"q": q, "spent": exp_spent})
        return None
    if integer:
        qstar = ref.largest_affordable(amount, p, m, spread, fee)
        if "raised" in obs:
            return ("largest_affordable", {"q": qstar, "no_error": True})
        q = obs["q"]
        if q != math.floor(q):
            return ("whole_units", {"q": qstar})
        if q != qstar:
            return ("largest_affordable", {"q": qstar, "cost_of_q": ref.trade_cost(qstar, p, m, spread, fee), "cost_of_q_plus_1": ref.trade_cost(qstar + 1, p, m, spread, fee)})
        exp_spent = ref.trade_cost(q, p, m, spread, fee)
        if not (abs(obs["spent"] - exp_spent) <= 1e-9 * max(1.0, abs(exp_spent))):
            return ("booked_cost", {"q": q, "spent": exp_spent})
        return None
    # fractional: the cost equals the amount
    if "raised" in obs:
        return ("fractional_cost_equals_amount", {"spent": amount, "no_error": True})
    q = obs["q"]
    if q == 0.0:
        # the single infeasible region: nothing can be traded for this amount (fixed fee >= amount > 0 ...)
        feasible = _fractional_feasible(amount, p, m, spread, fee)
        if feasible:
            return ("fractional_cost_equals_amount", {"spent": amount})
        return None
    exp_spent = ref.trade_cost(q, p, m, spread, fee)
    if not (abs(obs["spent"] - exp_spent) <= 1e-9 * max(1.0, abs(exp_spent))):
        return ("booked_cost", {"q": q, "spent": exp_spent})
    if abs(obs["spent"] - amount) > 2e-8 + 1e-9 * abs(amount):
        return ("fractional_cost_equals_amount", {"spent": amount})
    return None


def _fractional_feasible(amount, p, m, spread, fee):
    """is there a non-zero q with cost(q) == amount ?  cost is continuous and increasing on q>0 and
    on q<0 with jumps at 0 of +fee(0+) / -...: feasible iff amount > fixed fee (buy) or amount < fixed part (sell)"""
    eps = 1e-9
    c_plus = ref.trade_cost(eps, p, m, spread, fee)
    c_minus = ref.trade_cost(-eps, p, m, spread, fee)
    if amount > 0:
        return amount > c_plus + 1e-7
    return amount < c_minus - 1e-7 or c_minus < 0 and amount < c_minus


def sig_of(obs, pos, amount, p, m, spread, feename, integer):
    out = "raised:%s" % obs["raised"] if "raised" in obs else "q=%r" % float(obs["q"])
    return "%s|p=%r|m=%r|pos=%r|amount=%r|spread=%r|fee=%s|->%s" % ("int" if integer else "frac", float(p), float(m), float(pos), float(amount), spread, feename, out)


def grid_case(item):
    """worker: one (p, m, spread, fee, integer, pos) line of the grid, all amounts"""
    p, m, spread, feename, integer, pos, amounts = item
    root, spy = _tree(1.0 if (p != p or p == 0.0) else p, m, spread, feename, integer)
    if p != p or p == 0.0:
        # position must be established at a valid price first; then the price goes bad
        root, spy = _tree(p, m, spread, feename, integer, p_prev=1.0)
    viols = []
    n = 0
    nontrivial = 0
    indomain = ref.fee_in_domain(p, m, spread, T.fee_fn(feename)) if not (p != p or p == 0.0) else True
    value = pos * p * m if p == p else float("nan")
    ams = list(amounts)
    if p == p and p != 0.0 and pos != 0.0:
        ams.append(-value)
    for amount in ams:
        if p != p or p == 0.0:
            if pos != 0.0 and p != p:
                continue  # NaN price on an open position: the tree cannot even be updated (C10)
        try:
            obs = evaluate(root, pos, amount, p, m, spread, feename, integer)
        except Exception as e:  # reset failed: rebuild and retry once
            root, spy = _tree(p, m, spread, feename, integer, p_prev=1.0 if (p != p or p == 0.0) else None)
            try:
                obs = evaluate(root, pos, amount, p, m, spread, feename, integer)
            except Exception as e2:
                viols.append({"rule": "crash", "observed": rt.describe(e2), "point": [p, m, spread, feename, integer, pos, amount]})
                continue
        n += 1
        if indomain and ("q" in obs and obs["q"] != 0.0):
            nontrivial += 1
        j = judge(obs, pos, amount, p, m, spread, feename, integer)
        if j is not None:
            viols.append({"rule": j[0], "expected": j[1], "observed": obs, "sig": sig_of(obs, pos, amount, p, m, spread, feename, integer), "point": [p, m, spread, feename, integer, pos, amount]})
    # the next date: same price, another spread.  The same request is made on both dates with
    # nothing in between (no reset, no other trade): whatever the first call left behind must not
    # influence the second
    if spread is not None and p == p and p != 0.0:
        s2 = spread2(spread)
        for amount in ams[3::12]:
            try:
                r3, _ = _tree(p, m, spread, feename, integer)
                sec = r3["x"]
                _reset(r3, pos)
                try:
                    r3.allocate(amount, child="x")
                    r3.update(r3.now)
                except Exception:
                    continue  # (the first call is judged on the second date above)
                r3.update(r3.data.index[2])
                pos_b = float(sec.position)
                c0 = r3.capital
                v0 = sec.value
                try:
                    r3.allocate(amount, child="x")
                    r3.update(r3.now)
                    obs = {"q": sec.position - pos_b, "spent": c0 - r3.capital, "pos1": sec.position, "value0": v0}
                except Exception as e:
                    obs = {"raised": rt.guard_id(e) or ("crash:" + rt.describe(e))}
                n += 1
                j = judge(obs, pos_b, amount, p, m, s2, feename, integer)
                if j is not None:
                    viols.append({"rule": j[0], "expected": j[1], "observed": obs, "sig": "d3|" + sig_of(obs, pos_b, amount, p, m, s2, feename, integer), "point": [p, m, spread, feename, integer, pos, amount, "date3"]})
            except Exception as e:
                viols.append({"rule": "crash", "observed": rt.describe(e), "point": [p, m, spread, feename, integer, pos, amount, "date3"]})
    return (n, nontrivial, viols, indomain)


def nested_case(item):
    """a sub-strategy whose whole-unit / fractional setting differs from the root's: its securities
    (declared, or created on first use) are sized by the mode of the strategy that owns them"""
    bt = rt.bt()
    p, root_int, sub_int, decl, amount = item
    idx = pd.DatetimeIndex(["2020-01-01", "2020-01-02", "2020-01-03"])
    data = pd.DataFrame({"x": [p, p, p], "y": [1.0, 1.0, 1.0]}, index=idx, dtype=float)
    sub = bt.Strategy("s", [], [bt.Security("x")] if decl == "eager" else ["x"])
    root = bt.Strategy("r", [], [sub, bt.Security("y")])
    root.use_integer_positions(root_int)
    # (children are copied into the tree: the setting is made on the node that is in the tree)
    if decl != "lazy_after_setup":
        root["s"].use_integer_positions(sub_int)
    root.setup(data)
    if decl == "lazy_after_setup":
        root["s"].use_integer_positions(sub_int)
    sub = root["s"]
    root.adjust(CAP)
    root.update(idx[0])
    root.allocate(CAP / 2.0, child="s")
    root.update(idx[0])
    root.update(idx[1])
    c0 = sub.capital
    try:
        sub.allocate(amount, child="x")
        root.update(root.now)
        sec = sub["x"]
        obs = {"q": float(sec.position), "spent": c0 - sub.capital, "pos1": float(sec.position), "value0": 0.0}
    except Exception as e:
        obs = {"raised": rt.guard_id(e) or ("crash:" + rt.describe(e))}
    j = judge(obs, 0.0, amount, p, 1.0, None, None, sub_int)
    if j is None:
        return (1, 1 if obs.get("q") else 0, [])
    return (1, 0, [{"rule": j[0], "expected": dict(j[1], sized_as="whole units" if sub_int else "fractional", root_mode=root_int), "observed": obs, "point": [p, 1.0, None, None, sub_int, 0.0, amount, "nested", root_int, decl]}])


def config_case(item):
    """the commission function and the position mode the user configured reach the node that trades:
    three-level trees (root.set_commissions), and templates handed to Backtest with the other mode set"""
    bt = rt.bt()
    kind = item[0]
    idx = pd.DatetimeIndex(["2020-01-01", "2020-01-02", "2020-01-03"])
    if kind == "deep_fee":
        _, p, depth, feename, integer, amount = item
        data = pd.DataFrame({"x": [p, p, p], "y": [1.0, 1.0, 1.0]}, index=idx, dtype=float)
        leaf = bt.Strategy("leaf", [], [bt.Security("x")])
        node = leaf
        names = ["leaf"]
        for k in range(depth - 2):
            node = bt.Strategy("mid%d" % k, [], [node])
            names.insert(0, "mid%d" % k)
        root = bt.Strategy("r", [], [node, bt.Security("y")])
        root.use_integer_positions(integer)
        spy = T.FeeSpy(feename)
        root.set_commissions(spy)
        root.setup(data)
        root.adjust(CAP)
        root.update(idx[0])
        cur = root
        amt = CAP / 2.0
        for nm in names:
            cur.allocate(amt, child=nm)
            root.update(idx[0])
            cur = cur[nm]
            amt = amt / 2.0
        root.update(idx[1])
        owner = cur
        c0 = owner.capital
        try:
            owner.allocate(amount, child="x")
            root.update(root.now)
            sec = owner["x"]
            obs = {"q": float(sec.position), "spent": c0 - owner.capital, "pos1": float(sec.position), "value0": 0.0}
        except Exception as e:
            obs = {"raised": rt.guard_id(e) or ("crash:" + rt.describe(e))}
        j = judge(obs, 0.0, amount, p, 1.0, None, feename, integer)
        what = {"levels": depth, "fee": feename}
    elif kind == "sec_class":
        # every security class sizes with the multiplier it was constructed with
        _, p, cls, mult, feename, integer, amount = item
        data = pd.DataFrame({"x": [p, p, p], "y": [1.0, 1.0, 1.0]}, index=idx, dtype=float)
        sec = getattr(bt, cls)("x", multiplier=mult)
        root = bt.Strategy("r", [], [sec, bt.Security("y")])
        root.use_integer_positions(integer)
        if feename is not None:
            root.set_commissions(T.FeeSpy(feename))
        kw = {}
        if cls.startswith("CouponPaying"):
            kw["coupons"] = pd.DataFrame({"x": [0.0, 0.0, 0.0]}, index=idx)
        root.setup(data, **kw)
        root.adjust(CAP)
        root.update(idx[0])
        root.update(idx[1])
        c0 = root.capital
        try:
            root.allocate(amount, child="x")
            root.update(root.now)
            obs = {"q": float(root["x"].position), "spent": c0 - root.capital, "pos1": float(root["x"].position), "value0": 0.0}
        except Exception as e:
            obs = {"raised": rt.guard_id(e) or ("crash:" + rt.describe(e))}
        j = judge(obs, 0.0, amount, p, float(mult), None, feename, integer)
        what = {"class": cls, "multiplier": mult, "fee": feename}
    elif kind == "backtest_gap":
        # inside a Backtest: a request on a date whose price is missing (after a valid quote) is refused with an error
        _, p, integer, amount = item
        data = pd.DataFrame({"x": [p, float("nan"), p], "y": [1.0, 1.0, 1.0]}, index=idx, dtype=float)

        class AllocGap(bt.core.Algo):
            def __call__(self, target):
                if target.now == idx[1]:
                    target.allocate(amount, child="x")
                return True

        b = bt.Backtest(bt.Strategy("t", [AllocGap()], [bt.Security("x"), bt.Security("y")]), data, initial_capital=CAP, integer_positions=integer, progress_bar=False)
        try:
            b.run()
            obs = {"q": float(b.strategy["x"].position), "spent": CAP - float(b.strategy.capital), "pos1": float(b.strategy["x"].position), "value0": 0.0}
        except Exception as e:
            obs = {"raised": rt.guard_id(e) or ("crash:" + rt.describe(e))}
        j = judge(obs, 0.0, amount, float("nan"), 1.0, None, None, integer)
        what = {"price_on_the_date": "missing (valid the day before)"}
    elif kind == "template_reuse":
        # one Strategy object: an earlier backtest WITH a commission function, then this one without any
        _, p, earlier_fee, integer, amount, decl = item
        data = pd.DataFrame({"x": [p, p, p]}, index=idx, dtype=float)

        class AllocOnce2(bt.core.Algo):
            def __call__(self, target):
                if target.now == idx[1]:
                    target.allocate(amount, child="x")
                return True

        tpl = bt.Strategy("t", [AllocOnce2()], [bt.Security("x")] if decl == "eager" else ["x"])
        try:
            bt.Backtest(tpl, data, initial_capital=CAP, integer_positions=integer, commissions=T.fee_fn(earlier_fee), progress_bar=False).run()
            b = bt.Backtest(tpl, data, initial_capital=CAP, integer_positions=integer, progress_bar=False)
            b.run()
            sec = b.strategy["x"]
            obs = {"q": float(sec.position), "spent": CAP - float(b.strategy.capital), "pos1": float(sec.position), "value0": 0.0}
        except Exception as e:
            obs = {"raised": rt.guard_id(e) or ("crash:" + rt.describe(e))}
        j = judge(obs, 0.0, amount, p, 1.0, None, None, integer)
        what = {"commissions_of_this_backtest": None, "an_earlier_backtest_of_the_same_template_had": earlier_fee}
    else:
        _, p, pre, arg, feename, amount, decl = item
        data = pd.DataFrame({"x": [p, p, p]}, index=idx, dtype=float)

        class AllocOnce(bt.core.Algo):
            def __call__(self, target):
                if target.now == idx[1]:
                    target.allocate(amount, child="x")
                return True

        tpl = bt.Strategy("t", [AllocOnce()], [bt.Security("x")] if decl == "eager" else ["x"])
        if pre is not None:
            tpl.use_integer_positions(pre)
        b = bt.Backtest(tpl, data, initial_capital=CAP, integer_positions=arg, commissions=T.fee_fn(feename), progress_bar=False)
        try:
            b.run()
            sec = b.strategy["x"]
            obs = {"q": float(sec.position), "spent": CAP - float(b.strategy.capital), "pos1": float(sec.position), "value0": 0.0}
        except Exception as e:
            obs = {"raised": rt.guard_id(e) or ("crash:" + rt.describe(e))}
        j = judge(obs, 0.0, amount, p, 1.0, None, feename, arg)
        what = {"template_mode_before": pre, "backtest_integer_positions": arg, "fee": feename}
    if j is None:
        return (1, 1 if obs.get("q") else 0, [])
    exp = dict(j[1], configured=what) if isinstance(j[1], dict) else {"outcome": j[1], "configured": what}
    return (1, 0, [{"rule": j[0], "expected": exp, "observed": obs, "point": [None, None, None, None, None, None, None, "config", list(item)]}])


def replay(case):
    pt = case["point"]
    if len(pt) > 7 and pt[7] == "config":
        return [dict(v, point=None) for v in config_case(tuple(pt[8]))[2]]
    p, m, spread, feename, integer, pos, amount = pt[:7]
    if p is None:
        p = float("nan")
    if len(pt) > 7 and pt[7] == "nested":
        return [dict(v, point=None) for v in nested_case((p, pt[8], integer, pt[9], amount))[2]]
    root, spy = _tree(p, m, spread, feename, integer, p_prev=1.0 if (p != p or p == 0.0) else None)
    if len(pt) > 7:
        # third date: the same request was made on the second date first, nothing in between
        sec = root["x"]
        _reset(root, pos)
        root.allocate(amount, child="x")
        root.update(root.now)
        root.update(root.data.index[2])
        spread = spread2(spread)
        pos = float(sec.position)
        c0, v0 = root.capital, sec.value
        try:
            root.allocate(amount, child="x")
            root.update(root.now)
            obs = {"q": sec.position - pos, "spent": c0 - root.capital, "pos1": sec.position, "value0": v0}
        except Exception as e:
            obs = {"raised": rt.guard_id(e) or ("crash:" + rt.describe(e))}
    else:
        obs = evaluate(root, pos, amount, p, m, spread, feename, integer)
    j = judge(obs, pos, amount, p, m, spread, feename, integer)
    if j is None:
        return []
    return [{"rule": j[0], "expected": j[1], "observed": obs}]


@predicate("c05_k1")
def _k1(v):
    """integer sizing: a negative amount worth less than one unit on a flat or short position
    trades nothing (the stated rule wants one unit sold); matches only that exact outcome"""
    p, m, spread, feename, integer, pos, amount = v["case"]["point"][:7]
    if len(v["case"]["point"]) > 7:
        return False  # second call on the third date: position is not the grid's
    obs = v["observed"]
    if not integer or "raised" in obs or v.get("rule") != "largest_affordable":
        return False
    return amount < 0 and pos <= 0 and -1.0 < amount / (p * m) < 0 and obs.get("q") == 0.0 and v["expected"].get("q") <= -1


def grid(tier, seed):
    nan = float("nan")
    if tier == "quick":
        prices = [1.0, 2.5, 10.0, 100.0, 10.1] if seed % 2 == 0 else [2.0, 2.5, 10.0, 101.37, 10.1]
        mults = [1.0, 2.0]
        poss = [0.0, 3.0, -3.0, 10.0, -10.0, 7.0, -7.0]
        amounts = [x * 0.5 for x in range(-80, 81)] + [1000000.0, -1000000.0, 65536.25, -123456.5]
        spreads = [None, 0.5]
        fees = [None, "flat", "prop", "pershare", "maxflat", "selllevy"]
        modes = [True, False]
    else:
        prices = [1.0, 2.0, 2.5, 10.0, 100.0, 3.3, 0.7, 101.37, 10.1, 9.99]
        mults = [1.0, 2.0, 10.0]
        poss = [0.0, 3.0, -3.0, 10.0, -10.0, 3.5, -3.5, 1.0, -1.0, 25.0, 7.0, -7.0]
        amounts = [x * 0.25 for x in range(-320, 321)] + [1000.0, -1000.0, 12345.67, -999.99, 1000000.0, -1000000.0, 65536.25, -123456.5]
        spreads = [None, 0.0, 0.5, 0.25]
        fees = [None, "flat", "prop", "pershare", "maxflat", "propdec", "mixdec", "selllevy"]
        modes = [True, False]
    lines = []
    for p, m, sp, fe, integer, pos in itertools.product(prices, mults, spreads, fees, modes, poss):
        if integer and pos != math.floor(pos):
            continue
        lines.append((p, m, sp, fe, integer, pos, amounts))
    # missing / zero price: refused with an error
    for p in (nan, 0.0):
        for m, sp, fe, integer, pos in itertools.product(mults[:2], spreads[:2], fees[:2], modes, [0.0, 3.0]):
            lines.append((p, m, sp, fe, integer, pos, [-16.0, -0.5, 0.0, 0.5, 16.0]))
    return lines


def run(ctx):
    ctx.rule = "full Cartesian grid price x multiplier x spread x fee x mode x position x amount (plus the closing amount -value, amount 0, NaN/zero price); root mode x sub-strategy mode x declared / lazily created security x amount in a two-level tree; commission function set at the root of 2-4 level trees; templates with a position mode of their own handed to Backtest; a point is non-trivial if it lies inside the property's domain and a non-zero quantity was traded"
    ctx.assumptions += [
        "fee families: none, flat 1, proportional 1/8, per-share 1/4, max(1,|q|/8) (+ decimal 0.1% and 1%+0.5 in thorough); grid points whose fee is not below the unit price minus half spread are outside the property's domain and not judged",
        "cost(q) = q*p*m + |q|*spread/2*m + fee(q, p*m), cost(0) = 0; integer: q* = max{q : cost(q) <= amount} by bisection on the strictly increasing cost",
        "cash spent is measured on the parent's capital",
        "known sizing defects of the unchanged tree are identified point by point (input and exact wrong outcome): known/C05-*.txt",
    ]
    lines = grid(ctx.tier, ctx.seed)
    kinds = ["py", "cy"]
    ctx.bounds = {"grid_lines": len(lines), "amounts_per_line": len(lines[0][6]), "builds": kinds}
    for kind in kinds:
        pts = nt = 0
        for item, (n, nontrivial, viols, indomain) in ctx.run(kind, MOD, "grid_case", lines, chunksize=4):
            pts += n
            nt += nontrivial
            for v in viols:
                pt = v.pop("point", None)
                if pt is not None and pt[0] != pt[0]:
                    pt[0] = None
                ctx.violation(dict(v, build=kind, module=MOD, case={"point": pt}))
        ctx.add(states=pts, transitions=pts, traces_validated_against_impl=pts, evaluations=pts)
        ctx.nontrivial_count += nt
        ctx.extra.setdefault("grids", []).append({"build": kind, "points": pts, "in_domain_traded": nt})
    nested = [(p, ri, si, decl, a) for p in (2.5, 10.1, 100.0) for ri in (True, False) for si in (True, False) for decl in ("lazy", "eager", "lazy_after_setup") for a in (7.5, 25.0, 123.45, 1234.5)]
    for kind in kinds:
        for item, (n, nontrivial, viols) in ctx.run(kind, MOD, "nested_case", nested, chunksize=8):
            ctx.add(states=n, transitions=n, traces_validated_against_impl=n, evaluations=n)
            ctx.nontrivial_count += nontrivial
            for v in viols:
                pt = v.pop("point", None)
                ctx.violation(dict(v, build=kind, module=MOD, case={"point": pt}))
    conf = [("deep_fee", p, depth, fe, integer, a) for p in (2.5, 100.0) for depth in (2, 3, 4) for fe in ("flat", "pershare", "prop") for integer in (True, False) for a in (123.45, 1234.5, 7.7)]
    conf += [("backtest_mode", p, pre, arg, fe, a, decl) for p in (2.5, 100.0) for pre in (None, True, False) for arg in (True, False) for fe in (None, "flat") for a in (123.45, 1234.5) for decl in ("lazy", "eager")]
    conf += [("sec_class", p, cls, mult, fe, integer, a) for p in (2.5, 100.0) for cls in ("Security", "FixedIncomeSecurity", "HedgeSecurity", "CouponPayingSecurity", "CouponPayingHedgeSecurity") for mult in (1, 5) for fe in (None, "flat") for integer in (True, False) for a in (1234.5, 12345.6)]
    conf += [("template_reuse", p, fe, integer, a, decl) for p in (2.5, 100.0) for fe in ("flat", "prop") for integer in (True, False) for a in (123.45, 1234.5) for decl in ("lazy", "eager")]
    conf += [("backtest_gap", p, integer, a) for p in (2.5, 100.0) for integer in (True, False) for a in (123.45, -50.0)]
    for kind in kinds:
        for item, (n, nontrivial, viols) in ctx.run(kind, MOD, "config_case", conf, chunksize=8):
            ctx.add(states=n, transitions=n, traces_validated_against_impl=n, evaluations=n)
            ctx.nontrivial_count += nontrivial
            for v in viols:
                pt = v.pop("point", None)
                ctx.violation(dict(v, build=kind, module=MOD, case={"point": pt}))
    ctx.bounds["configured_fee_and_mode_cases"] = len(conf)
    ctx.bounds["nested_mode_cases"] = len(nested)
    ctx.sample({"point": {"price": 10.0, "multiplier": 2.0, "spread": 0.5, "fee": "maxflat", "integer": True, "position": -3.0, "amount": 25.5}})
    ctx.sample({"line": [str(x) for x in lines[len(lines) // 2][:6]]})
