"""C06 - Rebalance brings every child to its target weight.

Explorer: all sequences (depth <= 2/3) of steps (price move, target vector, cash fraction) on
a flat 3-ticker tree and on a tree with sub-strategy targets, so that every rebalance but the
first starts from a non-trivial prior portfolio; RebalanceOverTime schedules."""
import itertools
import json

import numpy as np
import pandas as pd

from .. import ledger, ref, rt, tree as T

MOD = "btmc.props.c06"

TARGETS_FLAT = [{}, {"a": 1.0}, {"a": 0.5, "b": 0.5}, {"a": 0.25, "b": 0.25, "c": 0.5}, {"b": -0.5, "c": 0.5}, {"c": 0.25}, {"a": -0.5}, {"a": 0.5, "b": 0.0}]
TARGETS_NESTED = [{}, {"s1": 0.5, "b": 0.25}, {"s1": 0.25, "s2": 0.5}, {"s2": 1.0}, {"b": 0.5}, {"s1": 1.0}, {"s1": -0.25, "b": 0.5}]
CASHES = [None, 0.0, 0.25, 0.5, 1.0]  # (1.0: everything to cash - every target is zero)


def unit_cost(p, m, spread, fee, q):
    """cost of one more unit, including that unit's own half-spread and marginal commission"""
    c = p * m + 0.5 * (spread or 0.0) * m
    if fee is not None:
        c += max(fee(abs(q) + 1, p * m) - (fee(abs(q), p * m) if q != 0 else 0.0), fee(1, p * m))
    return c


def seq_case(item):
    spec, steps = item
    bt = rt.bt()
    ledger.install_trade_spy()
    ledger.install_alloc_spy()
    fee = T.fee_fn(spec.get("fee"))
    spread = spec.get("spread")
    integer = spec.get("integer", True)
    viols = []
    n = 0
    try:
        t = T.Tree(spec)
    except Exception as e:
        return ("setup_failed", [{"rule": "setup_failed", "observed": rt.describe(e)}], 0, 0)
    root = t.root
    traded = 0
    for si, (move, tw, cash) in enumerate(steps):
        try:
            if move == "next":
                if not t.apply(["next"]):
                    break
            base = float(root.value)
            # (noread: nothing but the root's value is read before the algo - a dormant security is not
            # woken up by the harness)
            before = {} if spec.get("noread") else T.snapshot(t)
            if move in ("flow+", "flow-"):
                # capital booked earlier in the same bar (e.g. CapitalFlow), nothing read in between
                amt = 128.0 if move == "flow+" else -64.0
                t.apply(["adjust", [], amt, True])
                base = base + amt
            if move == "trade":
                # a trade booked earlier in the same bar (update requested, nothing read since):
                # the strategy's value is unchanged by a cost-free trade at the current price
                if fee is None and spread is None:
                    kid = "a" if spec["shape"] == "T1c" else "b"
                    t.apply(["transact", [], kid, 2.0])
            if abs(base) <= 1e-9 * max(1.0, float(spec.get("capital", 0.0))):
                # a strategy worth exactly nothing has no weights to rebalance to (zero base: C10's ill-formed class)
                return ("refused", viols, n, traded)
            scale = max(abs(base), float(spec.get("capital", 0.0))) if spec.get("noread") else max(abs(base), T.gross(t))
            temp = {"weights": dict(tw)}
            if cash is not None:
                temp["cash"] = cash
            ledger.clear_trades()
            ledger.take_allocs()
            t.apply(["algos", [], temp, "Rebalance"])
            allocs = ledger.take_allocs(root)
            after = T.snapshot(t)
            trades = ledger.trade_costs(t, ledger.trades_of(t))
        except Exception as e:
            if rt.classify(e) == "guard":
                return ("refused", viols, n, traded)
            viols.append({"rule": "crash", "observed": rt.describe(e), "where": si})
            return ("crash", viols, n, traded)
        n += 1
        traded += len(trades)
        if after["r"]["bankrupt"]:
            # the costs of the rebalance drove the root's value below zero: liquidated (C16)
            return ("bankrupt", viols, n, traded)
        c = cash or 0.0
        for cname in after["r"]["children"]:
            k = after[cname]["name"]
            node = after[cname]
            if k in tw and tw[k] != 0.0:
                # "any sane cost model": commission and half-spread below the unit price, for every
                # security that has to trade to reach this target
                leaves = [x for x in after["__order__"] if (x == cname or x.startswith(cname + ">")) and after[x]["kind"] == "X"]
                if any(not ref.fee_in_domain(after[x]["price"], after[x]["mult"], spread, fee) for x in leaves):
                    continue
                tgt = (1.0 - c) * tw[k] * base
                below = [x for x in trades if x["sec"] == cname or x["sec"].startswith(cname + ">")]
                own = sum(abs(x["fee"]) + abs(x["friction"]) for x in below)
                if node["kind"] == "X":
                    tol = own
                    if integer:
                        q = sum(x["q"] for x in below)
                        tol += unit_cost(node["price"], node["mult"], spread, fee, q)
                else:
                    tol = own
                    if integer:
                        # one unit (+ its costs) per security below the sub-strategy
                        for x in after["__order__"]:
                            if x.startswith(cname + ">") and after[x]["kind"] == "X":
                                tol += unit_cost(after[x]["price"], after[x]["mult"], spread, fee, 0)
                tol += 1e-9 * scale
                if not (abs(node["value"] - tgt) <= tol):
                    # was the miss produced by the sizing search itself (the known C05 defect)?  Each
                    # allocate request made below this child is re-decided by the brute-force reference
                    sig = None
                    if integer:
                        for a in allocs:
                            if (a["name"] == cname or a["name"].startswith(cname + ">")) and a["integer"] and abs(a["amount"] + a["value0"]) > 1e-9 and ref.fee_in_domain(a["price"], a["mult"], a["spread"], fee):
                                qstar = ref.largest_affordable(a["amount"], a["price"], a["mult"], a["spread"], fee)
                                if qstar is not None and a["pos1"] - a["pos0"] != qstar:
                                    sig = "target_missed|allocate_traded_other_than_largest_affordable"
                    viols.append({"rule": "target_value", "sig": sig, "expected": {"child": k, "target_value": tgt, "tolerance": tol, "base": base, "cash": cash, "weights": tw}, "observed": node["value"], "where": si})
            else:
                # not targeted (or target 0): closed, whole subtree
                for x in after["__order__"]:
                    if (x == cname or x.startswith(cname + ">")) and after[x]["kind"] == "X":
                        if not (abs(after[x]["position"]) <= 1e-9):
                            viols.append({"rule": "non_target_closed", "expected": {"child": x, "position": 0.0, "weights": tw}, "observed": after[x]["position"], "where": si})
        # a sub-strategy target spreads what it receives over its children by their current weights
        if not integer and fee is None and spread is None:
            for cname in after["r"]["children"]:
                node = after[cname]
                k = node["name"]
                if node["kind"] == "S" and k in tw and tw[k] != 0.0 and cname in before:
                    v0, v1 = before[cname]["value"], node["value"]
                    for g in node["children"]:
                        w0 = before[g]["weight"] if g in before else 0.0
                        g0 = before[g]["value"] if g in before else 0.0
                        exp = g0 + (v1 - v0) * w0
                        if not (abs(after[g]["value"] - exp) <= 1e-9 * scale):
                            viols.append({"rule": "substrategy_spreads_by_child_weight", "expected": {"child": g, "value": exp, "received": v1 - v0, "weight_before": w0}, "observed": after[g]["value"], "where": si})
        if viols:
            break
    return ("ok", viols[:6], n, traded)


def overtime_case(item):
    """RebalanceOverTime(n) with constant prices: linear path to the target, then the target"""
    bt = rt.bt()
    spec, start, target, nsteps = item[:4]
    second = item[4] if len(item) > 4 else None
    t = T.Tree(spec)
    root = t.root
    viols = []
    if start:
        t.apply(["algos", [], {"weights": dict(start)}, "Rebalance"])
    if second is not None:
        # new targets arrive while the first stepwise rebalance is still under way (constant prices):
        # from then on the path is linear from the weights held at that moment to the new targets
        algo = bt.algos.RebalanceOverTime(nsteps)
        root.temp = {"weights": dict(target)}
        algo(root)
        if not t.apply(["next"]):
            return ("ok", [], 1, 1)
        wsig = {k: (float(root.children[k].weight) if k in root.children else 0.0) for k in second}
        for j in range(1, nsteps + 1):
            root.temp = {"weights": dict(second)} if j == 1 else {}
            algo(root)
            for name in second:
                w = float(root.children[name].weight) if name in root.children else 0.0
                exp = wsig[name] + (j / float(nsteps)) * (second[name] - wsig[name])
                if not (abs(w - exp) <= 1e-9):
                    viols.append({"rule": "rebalance_over_time_new_targets", "expected": {"child": name, "step": j, "of": nsteps, "weight": exp, "weight_when_the_new_targets_arrived": wsig[name]}, "observed": w})
            if viols or (j < nsteps and not t.apply(["next"])):
                break
        return ("ok", viols[:4], nsteps, 1)
    names = sorted(set(start) | set(target))
    w0 = {k: (float(root.children[k].weight) if k in root.children else 0.0) for k in names}
    algo = bt.algos.RebalanceOverTime(nsteps)
    for k in range(1, nsteps + 1):
        if k > 1:
            if not t.apply(["next"]):
                break
        root.temp = {"weights": dict(target)} if k == 1 else {}
        algo(root)
        if root.bankrupt:
            return ("bankrupt", viols[:4], k, 1)
        for name in target:
            w = float(root.children[name].weight) if name in root.children else 0.0
            if "prices" in spec:
                # constant prices: the path is linear
                exp = w0.get(name, 0.0) + (k / float(nsteps)) * (target[name] - w0.get(name, 0.0))
                if not (abs(w - exp) <= 1e-9):
                    viols.append({"rule": "rebalance_over_time_step", "expected": {"child": name, "step": k, "of": nsteps, "weight": exp}, "observed": w})
            elif k == nsteps and not (abs(w - target[name]) <= 1e-9):
                # moving prices: whatever drifted in between, the n-th step lands on the target
                viols.append({"rule": "rebalance_over_time_final", "expected": {"child": name, "after_steps": nsteps, "weight": target[name]}, "observed": w})
    # one more call without new weights: nothing left to do
    before = {k: float(c.position) for k, c in root.children.items()}
    if t.apply(["next"]):
        root.temp = {}
        algo(root)
        after = {k: float(c.position) for k, c in root.children.items()}
        if before != after and not root.bankrupt:
            viols.append({"rule": "rebalance_over_time_done", "expected": before, "observed": after})
    return ("ok", viols[:4], nsteps, 1)


def backtest_case(item):
    """Rebalance inside a real Backtest on a nested tree with explicit Security objects: right after
    the algo every targeted child sits at its target weight (fractional, cost-free: exactly)"""
    bt = rt.bt()
    A = bt.algos
    from .. import runfam as R

    tree, integer, dname, sub_w, root_w = item
    data = R.table(dname, "exact", late=False)
    seen = []

    class Probe(bt.core.Algo):
        def __call__(self, target):
            if target.root.name == "r" and "weights" in target.temp:
                seen.append((R.node_path(target), str(target.now), dict(target.temp["weights"]), {k: float(c.weight) for k, c in target.children.items()}, float(target.value)))
            return True

    def sub(name, w, kids):
        return bt.Strategy(name, [A.RunDaily(), A.WeighSpecified(**w), A.Rebalance(), Probe()], kids)

    if tree in ("fi_flat", "fi_two"):
        import pandas as pd

        idx = data.index
        n = len(idx)
        data = data.copy()
        data["d"] = [1.0 if i != 5 else 0.0 for i in range(n)]  # a swap-like mark that sits at exactly zero on one date
        ad = {"notional": pd.Series([1024.0 + 256.0 * (i % 3) for i in range(n)], index=idx)}

        class FIProbe(bt.core.Algo):
            def __call__(self, target):
                if target.root.name == "r" and "weights" in target.temp:
                    kids = {k: (float(c.weight), float(c.notional_value), isinstance(c, bt.core.StrategyBase)) for k, c in target.children.items()}
                    open_below = {R.node_path(x): float(x.position) for k, c in target.children.items() if k not in target.temp["weights"] for x in ([c] if isinstance(c, bt.core.SecurityBase) else c.securities) if float(x.position) != 0.0}
                    seen.append((R.node_path(target), str(target.now), dict(target.temp["weights"]), kids, float(target.notional_value), float(target.temp.get("notional_value", float("nan"))), open_below))
                return True

        if tree == "fi_flat":
            kids = [bt.FixedIncomeSecurity("a"), bt.FixedIncomeSecurity("b", multiplier=10), bt.CouponPayingSecurity("d", multiplier=4)]
            ad["coupons"] = pd.DataFrame({"d": [0.0] * n}, index=idx)
            root = bt.FixedIncomeStrategy("r", [A.RunDaily(), A.SetNotional("notional"), A.WeighSpecified(**sub_w), A.Rebalance(), FIProbe()], children=kids)
        else:
            sub_s = bt.FixedIncomeStrategy("s", [A.RunOnce(), A.SetNotional("notional"), A.WeighSpecified(a=0.5, d=-0.5), A.Rebalance()], children=[bt.FixedIncomeSecurity("a"), bt.FixedIncomeSecurity("d")])
            pw = pd.DataFrame({"s": [0.5 if i < 5 else float("nan") for i in range(n)], "b": [0.5 if i < 5 else 1.0 for i in range(n)]}, index=idx)
            ad["pw"] = pw
            root = bt.FixedIncomeStrategy("r", [A.RunDaily(), A.SetNotional("notional"), A.WeighTarget("pw"), A.Rebalance(), FIProbe()], children=[sub_s, bt.FixedIncomeSecurity("b")])
        b = bt.Backtest(root, data, initial_capital=0.0, integer_positions=False, progress_bar=False, additional_data=ad)
        try:
            b.run()
        except Exception as e:
            if rt.classify(e) == "guard":
                return ("refused", [], 0)
            return ("crash", [{"rule": "crash", "observed": rt.describe(e)}], 0)
        viols = []
        for path, now, tw, kids, notl, base, open_below in seen:
            for k, w in tw.items():
                got = kids.get(k)
                if got is not None and got[2]:
                    continue  # (a sub-strategy without child weights receives notional by its own schedule: C17)
                wrong_weight = tree == "fi_flat" and got is not None and not (abs(got[0] - w / sum(abs(x) for x in tw.values())) <= 1e-9)
                if got is None or wrong_weight or not (abs(got[1] - w * base) <= 1e-9 * max(1.0, abs(base))):
                    viols.append({"rule": "target_notional_in_backtest", "expected": {"node": path, "date": now, "child": k, "notional": w * base, "notional_weight": w / sum(abs(x) for x in tw.values())}, "observed": got})
                    break
            if open_below and not viols:
                viols.append({"rule": "non_target_closed_in_backtest", "expected": {"node": path, "date": now, "open positions below dropped children": {}}, "observed": open_below})
            if viols:
                break
        return ("ok", viols, len(seen))
    if tree == "flat_hedge":
        # an ordinary strategy holding a hedge instrument (and a coupon-paying one) that drops out of the targets
        import pandas as pd

        idx = data.index
        n = len(idx)
        tw = pd.DataFrame({"a": [0.5] * n, "d": [0.25 if (i // 2) % 2 == 0 else float("nan") for i in range(n)], "b": [float("nan") if (i // 3) % 2 == 0 else 0.125 for i in range(n)]}, index=idx)
        nonclosed = []

        class Probe2(bt.core.Algo):
            def __call__(self, target):
                if target.root.name == "r" and "weights" in target.temp:
                    seen.append((R.node_path(target), str(target.now), dict(target.temp["weights"]), {k: float(c.weight) for k, c in target.children.items()}, float(target.value)))
                    for k, c in target.children.items():
                        if k not in target.temp["weights"] and float(c.position) != 0.0:
                            nonclosed.append((str(target.now), k, float(c.position)))
                return True

        root = bt.Strategy("r", [A.RunDaily(), A.WeighTarget("tw"), A.Rebalance(), Probe2()], [bt.Security("a"), bt.HedgeSecurity("d"), bt.CouponPayingHedgeSecurity("b")])
        b = bt.Backtest(root, data, initial_capital=1e6, integer_positions=integer, progress_bar=False, additional_data={"tw": tw, "coupons": pd.DataFrame({"b": [0.0] * n}, index=idx)})
        try:
            b.run()
        except Exception as e:
            if rt.classify(e) == "guard":
                return ("refused", [], 0)
            return ("crash", [{"rule": "crash", "observed": rt.describe(e)}], 0)
        viols = []
        if nonclosed:
            viols.append({"rule": "non_target_closed_in_backtest", "expected": {"child dropped from the targets": "closed"}, "observed": nonclosed[:3]})
        return ("ok", viols, len(seen))
    if tree == "two":
        s1 = sub("s", sub_w, [bt.Security("a"), bt.Security("b")])
        root = bt.Strategy("r", [A.RunWeekly(), A.WeighSpecified(**root_w), A.Rebalance(), Probe()], [s1, bt.Security("d", multiplier=5)])
    elif tree == "three":
        s11 = sub("s", sub_w, ["a", "b"])
        m = bt.Strategy("m", [A.RunWeekly(), A.WeighSpecified(s=0.75, d=0.25), A.Rebalance(), Probe()], [s11, bt.Security("d", multiplier=5)])
        root = bt.Strategy("r", [A.RunMonthly(), A.WeighSpecified(m=root_w.get("s", 0.5)), A.Rebalance(), Probe()], [m])
    else:
        root = bt.Strategy("r", [A.RunDaily(), A.WeighSpecified(**sub_w), A.Rebalance(), Probe()], [bt.Security("a"), bt.Security("b", multiplier=2)])
    b = bt.Backtest(root, data, initial_capital=1e6, integer_positions=integer, progress_bar=False)
    try:
        b.run()
    except Exception as e:
        if rt.classify(e) == "guard":
            return ("refused", [], 0)
        return ("crash", [{"rule": "crash", "observed": rt.describe(e)}], 0)
    viols = []
    for path, now, tw, ws, value in seen:
        for k, w in tw.items():
            got = ws.get(k)
            if integer:
                # one unit of the most expensive security below, relative to the node's value
                tol = 5.0 * float(data.max().max()) * 3 / max(1.0, abs(value))
            else:
                tol = 1e-9
            if got is None or not (abs(got - w) <= tol):
                viols.append({"rule": "target_weight_in_backtest", "expected": {"node": path, "date": now, "child": k, "weight": w, "integer_positions": integer}, "observed": got})
                break
        if viols:
            break
    return ("ok", viols, len(seen))


def replay(case):
    if case["kind"] == "backtest":
        w = case["where"]
        return backtest_case((w[0], w[1], w[2], w[3], w[4]))[1]
    if case["kind"] == "seq":
        return seq_case((case["spec"], [tuple(s) for s in case["steps"]]))[1]
    if case.get("second"):
        return overtime_case((case["spec"], case["start"], case["target"], case["n"], case["second"]))[1]
    return overtime_case((case["spec"], case["start"], case["target"], case["n"]))[1]


def configs(tier, seed):
    out = []
    costs = [
        {"fee": None, "spread": None},
        {"fee": "prop", "spread": None},
        {"fee": "flat", "spread": 0.5},
        {"fee": "pershare", "spread": 0.25},
        {"fee": None, "spread": 0.5},
    ]
    if tier == "quick":
        k = seed % len(costs)
        plan = [("T1c", False, costs[0], {}, 2), ("T1c", False, costs[0], {}, 2, "exact", "idle"), ("T1c", False, costs[0], {}, 2, "exact", "tiny"), ("T1c", False, costs[0], {}, 2, "exact", "zeroquote"), ("T1c", True, costs[(k + 1) % 5], {}, 2), ("T1c", False, costs[(k + 2) % 5], {"a": 2}, 2), ("T2", False, costs[0], {}, 2), ("T2", True, costs[(k + 1) % 5], {}, 2)]
    else:
        plan = []
        for ci, cst in enumerate(costs):
            for integer in (True, False):
                plan.append(("T1c", integer, cst, {"a": 2} if ci % 2 else {}, 3 if ci < 2 else 2))
                plan.append(("T2", integer, cst, {}, 2))
        plan.append(("T1c", True, costs[1], {}, 2, "decimal"))
        plan.append(("T1c", False, costs[2], {}, 2, "decimal"))
        plan.append(("T1c", False, costs[0], {}, 3, "exact", "idle"))
        plan.append(("T1c", True, costs[1], {}, 2, "exact", "idle"))
        plan.append(("T1c", False, costs[0], {}, 2, "exact", "tiny"))
        plan.append(("T1c", False, costs[0], {}, 3, "exact", "zeroquote"))
        plan.append(("T1c", True, costs[0], {}, 2, "exact", "zeroquote"))
    for p in plan:
        shape, integer, cst, mult, depth = p[:5]
        al = p[5] if len(p) > 5 else "exact"
        spec = dict(cst, shape=shape, integer=integer, mult=mult, capital=1024.0, ndates=4, alpha=al)
        if len(p) > 6 and p[6] == "zeroquote":
            # 'a' is held while its quote sits at exactly zero on two dates, then recovers
            spec["ndates"] = 6
            spec["noread"] = True
            spec["prices"] = {"a": [4.0, 0.0, 0.0, 8.0, 4.0, 2.0], "b": [1.0, 2.0, 0.5, 1.0, 4.0, 2.0], "c": [2.0, 2.0, 4.0, 1.0, 2.0, 8.0]}
            spec["preops"] = [["algos", [], {"weights": {"a": 0.25, "b": 0.25}}, "Rebalance"], ["next"], ["next"], ["next"]]
        if len(p) > 6 and p[6] == "tiny":
            # a book of a thousandth of a currency unit against prices in the hundred thousands: every
            # trade is a few billionths of a unit
            spec["capital"] = 2.0 ** -10
            spec["prices"] = {k: [x * 65536.0 for x in T.TABLES["exact"][k][:4]] for k in ("a", "b", "c")}
        if len(p) > 6 and p[6] == "idle":
            # 'a' was held, closed by an earlier Rebalance and has been idle for a date while its price moved
            spec["ndates"] = 6
            spec["noread"] = True
            spec["preops"] = [["algos", [], {"weights": {"a": 0.5}}, "Rebalance"], ["next"], ["algos", [], {"weights": {"b": 0.5}}, "Rebalance"], ["next"]]
        if shape == "T2":
            # the sub-strategies hold positions of their own when the parent starts rebalancing
            spec["prefund"] = [[[], "s1", 256.0], [[], "s2", 128.0]]
            spec["preops"] = [["batch", [["rebbase", ["s1"], "a", 0.75, 256.0], ["rebbase", ["s1"], "b", -0.25, 256.0], ["rebbase", ["s2"], "a", 1.0, 128.0]]]]
        out.append((spec, depth))
    return out


def run(ctx):
    ctx.rule = "all sequences (depth <= bound) of (price move, target vector, cash fraction) steps on the flat and the nested tree x cost model x position mode; RebalanceOverTime(n) x start portfolios x targets; Rebalance probed inside real backtests on flat / 2- / 3-level trees with explicit Security objects x position mode; a sequence is non-trivial if it executed at least one trade"
    ctx.assumptions += [
        "tolerance: the child's own trade costs (+ one more unit incl. that unit's half-spread and commission with integer positions); fractional and cost-free: 1e-9 relative",
        "base = strategy value read immediately before the algo",
        "sane cost model: a target is judged only where commission + half spread of one unit is below the unit price (same domain as C05)",
        "sequences that end in a documented guard (e.g. the known sizing guards, C05) are refused transitions",
    ]
    kinds = ["py"] if ctx.tier == "quick" else ["py", "cy"]
    total = 0
    for spec, depth in configs(ctx.tier, ctx.seed):
        targets = TARGETS_FLAT if spec["shape"] == "T1c" else TARGETS_NESTED
        steps = [(mv, tw, c) for mv in ("stay", "next") for tw in targets for c in CASHES]
        steps += [(mv, tw, c) for mv in ("flow+", "flow-") for tw in targets[1:4] for c in (None, 0.25)]
        if spec.get("fee") is None and spec.get("spread") is None:
            steps += [("trade", tw, c) for tw in targets[1:5] for c in (None, 0.25)]
        first = [s for s in steps if s[0] == "stay"]
        seqs = []
        for d in range(1, depth + 1):
            for combo in itertools.product(*([first] + [steps] * (d - 1))):
                seqs.append(list(combo))
        for kind in kinds:
            ok = refused = 0
            for (sp, st), (status, viols, n, traded) in ctx.run(kind, MOD, "seq_case", [(spec, s) for s in seqs], chunksize=16):
                ctx.add(transitions=n, traces_validated_against_impl=1, evaluations=n)
                if status in ("refused", "bankrupt"):
                    refused += 1
                    ctx.add(refused=1)
                elif status == "ok":
                    ok += 1
                    ctx.add(states=1)
                    if traded:
                        ctx.nontrivial_count += 1
                for v in viols:
                    ctx.violation(dict(v, build=kind, module=MOD, case={"kind": "seq", "spec": spec, "steps": [list(s) for s in st]}))
            ctx.extra.setdefault("sequences", []).append({"shape": spec["shape"], "integer": spec["integer"], "fee": spec["fee"], "spread": spec["spread"], "build": kind, "depth": depth, "sequences": len(seqs), "completed": ok, "refused": refused})
            total += len(seqs)
            if ok < 0.5 * len(seqs):
                ctx.violation({"rule": "vacuity", "build": kind, "observed": "only %d of %d rebalance sequences completed (%s)" % (ok, len(seqs), spec["shape"]), "expected": ">= 50%"})
        ctx.sample({"spec": {k: spec[k] for k in ("shape", "integer", "fee", "spread")}, "steps": [list(s) for s in seqs[len(seqs) // 2]]})
    # RebalanceOverTime
    ot = []
    flat = {"shape": "T1c", "integer": False, "fee": None, "spread": None, "capital": 1024.0, "ndates": 6, "prices": {"a": [4.0] * 6, "b": [1.0] * 6, "c": [2.0] * 6}}
    moving = {"shape": "T1c", "integer": False, "fee": None, "spread": None, "capital": 1024.0, "ndates": 6}
    for start in ({}, {"a": 0.5}, {"a": 0.25, "b": 0.5}, {"b": -0.25}):
        for target in ({"a": 1.0}, {"a": 0.5, "b": 0.5}, {"b": -0.5, "c": 0.5}, {"a": 0.0, "c": 0.25}):
            for nsteps in (1, 2, 3, 4):
                ot.append((flat, start, target, nsteps))
                ot.append((moving, start, target, nsteps))
                if nsteps in (2, 3):
                    ot.append((flat, start, target, nsteps, {"a": 0.25, "b": 0.5}))
    for kind in kinds:
        for item, (status, viols, n, tr) in ctx.run(kind, MOD, "overtime_case", ot, chunksize=4):
            ctx.add(states=1, transitions=n, traces_validated_against_impl=1, evaluations=n)
            ctx.nontrivial_count += 1
            for v in viols:
                ctx.violation(dict(v, build=kind, module=MOD, case={"kind": "overtime", "spec": item[0], "start": item[1], "target": item[2], "n": item[3], "second": item[4] if len(item) > 4 else None}))
    bts = [(tree, integer, dname, sw, rw) for tree in ("flat", "two", "three") for integer in (False, True) for dname in ("d12", "d25") for sw in ({"a": 0.5, "b": 0.25}, {"a": 0.75, "b": -0.25}) for rw in ({"s": 0.5, "d": 0.25}, {"s": 0.25, "d": -0.25})]
    bts += [("fi_flat", False, dname, sw, None) for dname in ("d12", "d25") for sw in ({"a": 0.5, "b": 0.25}, {"a": 0.75, "b": -0.25}, {"a": 0.25, "b": 0.25, "d": 0.5})]
    bts += [("fi_two", False, dname, None, None) for dname in ("d12", "d25")]
    bts += [("flat_hedge", integer, dname, None, None) for dname in ("d12", "d25") for integer in (False, True)]
    for kind in kinds:
        for item, (status, viols, n) in ctx.run(kind, MOD, "backtest_case", bts, chunksize=2):
            ctx.add(states=1, transitions=n, traces_validated_against_impl=1, evaluations=n)
            if n:
                ctx.nontrivial_count += 1
            for v in viols:
                ctx.violation(dict(v, build=kind, module=MOD, case={"kind": "backtest", "where": list(item)}))
    ctx.bounds = {"sequences": total, "overtime_cases": len(ot), "backtests": len(bts), "builds": kinds}
