"""C07 - ledger oracle on the BFS over TreeDriver operations (part i); the run-family
part (ii) is in btmc.runfam."""
from .. import alpha, bfs, ledger, tree as T

MOD = "btmc.props.c07"
PROP = "C07"
OBSERVE = True


def pre(t, op):
    return ledger.pre(t, op)


def post(t, op, st):
    return ledger.post(t, op, st, {PROP})


def replay_case(item):
    """ReplayTransactions over a blotter with several fills per security and step (intraday stamps, a
    round trip inside one step): each fill is one trade - its own outlay q x p x multiplier and its own
    commission at (q, p x multiplier) - reconciled per date against the blotter itself"""
    import pandas as pd

    from .. import ref, rt

    bt = rt.bt()
    feename, mult, nested = item
    fee = T.fee_fn(feename) or (lambda q, p: 0.0)
    idx = pd.bdate_range("2020-01-06", periods=6)
    data = pd.DataFrame({"a": [4.0, 2.0, 8.0, 4.0, 2.0, 4.0], "b": [1.0, 2.0, 0.5, 1.0, 4.0, 2.0]}, index=idx, dtype=float)
    fills = [
        (idx[1] - pd.Timedelta(hours=6), "a", 8.0, 2.25), (idx[1] - pd.Timedelta(hours=2), "a", 4.0, 2.0), (idx[1], "b", -6.0, 2.0),
        (idx[2] - pd.Timedelta(hours=5), "a", 4.0, 7.5), (idx[2] - pd.Timedelta(hours=1), "a", -4.0, 8.25),  # a round trip inside one step
        (idx[3], "b", 2.0, 1.0), (idx[3] - pd.Timedelta(hours=3), "b", 2.0, 1.25), (idx[3] - pd.Timedelta(hours=4), "a", -12.0, 4.0),
        (idx[5] - pd.Timedelta(hours=1), "b", 2.0, 2.5), (idx[5], "b", -1.0, 2.0),
    ]
    tx = pd.DataFrame({"quantity": [f[2] for f in fills], "price": [f[3] for f in fills]}, index=pd.MultiIndex.from_tuples([(f[0], f[1]) for f in fills], names=["Date", "Security"]))
    kids = [bt.Security("a", multiplier=mult), bt.Security("b")]
    if nested:
        s = bt.Strategy("r", [bt.algos.RunOnce(), bt.algos.WeighSpecified(s=0.5), bt.algos.Rebalance()], [bt.Strategy("s", [bt.algos.ReplayTransactions("tx")], kids)])
    else:
        s = bt.Strategy("r", [bt.algos.ReplayTransactions("tx")], kids)
    b = bt.Backtest(s, data, initial_capital=4096.0, commissions=T.fee_fn(feename), integer_positions=False, progress_bar=False, additional_data={"tx": tx, "bidoffer": pd.DataFrame(0.0, index=idx, columns=["a", "b"])})
    viols = []
    try:
        b.run()
    except Exception as e:
        if rt.classify(e) == "guard":
            return (0, [])
        return (0, [{"rule": "crash", "observed": rt.describe(e)}])
    owner = b.strategy["s"] if nested else b.strategy
    m = {"a": float(mult), "b": 1.0}
    labels = list(owner.values.index)
    n = 0
    for i in range(1, len(labels)):
        lo, hi = labels[i - 1], labels[i]
        day = [f for f in fills if lo < f[0] <= hi]
        exp_fee = sum(fee(q, p * m[k]) for _, k, q, p in day)
        exp_out = {k: sum(q * p * m[k] for _, k2, q, p in day if k2 == k) for k in ("a", "b")}
        exp_pos = {k: sum(q for _, k2, q, p in day if k2 == k) for k in ("a", "b")}
        got_fee = float(owner.fees.iloc[i])
        n += 1
        if not ref.near(got_fee, exp_fee, 1.0):
            viols.append({"rule": "replayed_fills_fees", "expected": {"date": str(hi), "fees": exp_fee, "fills": [(k, q, p) for _, k, q, p in day]}, "observed": got_fee})
        for k in ("a", "b"):
            sec = owner[k]
            go = float(sec.outlays.iloc[i])
            gp = float(sec.positions.iloc[i]) - float(sec.positions.iloc[i - 1])
            if not ref.near(go, exp_out[k], 1.0):
                viols.append({"rule": "replayed_fills_outlay", "expected": {"date": str(hi), "security": k, "outlay": exp_out[k]}, "observed": go})
            if not ref.near(gp, exp_pos[k], 1.0):
                viols.append({"rule": "replayed_fills_position", "expected": {"date": str(hi), "security": k, "position_change": exp_pos[k]}, "observed": gp})
        flow = float(owner.flows.iloc[i])
        dc = float(owner.cash.iloc[i]) - float(owner.cash.iloc[i - 1])
        exp_dc = flow - sum(exp_out.values()) - exp_fee
        if not ref.near(dc, exp_dc, 1.0):
            viols.append({"rule": "replayed_fills_cash", "expected": {"date": str(hi), "cash_change": exp_dc}, "observed": dc})
        if viols:
            break
    return (n, viols[:4])


def replay(case):
    if case.get("driver") == "replaytx":
        return replay_case(tuple(case["item"]))[1]
    if case.get("driver") in ("run", "scaled"):
        from .. import runcheck

        return runcheck.replay(PROP, case)
    return bfs.replay_case(MOD, case)


def run(ctx):
    from . import _ledger_run

    _ledger_run.run(ctx, MOD, PROP)
    items = [(fe, mult, nested) for fe in (None, "flat", "maxflat", "pershare", "rebate", "selllevy") for mult in (1, 2) for nested in (False, True)]
    for kind in ["py"] if ctx.tier == "quick" else ["py", "cy"]:
        for item, (n, viols) in ctx.run(kind, MOD, "replay_case", items, chunksize=2):
            ctx.add(states=1, transitions=n, traces_validated_against_impl=n, evaluations=n)
            ctx.nontrivial_count += 1 if n else 0
            for v in viols:
                ctx.violation(dict(v, build=kind, module=MOD, case={"driver": "replaytx", "item": list(item)}))
    ctx.bounds["replayed_blotters"] = len(items)
    ctx.rule += "; ReplayTransactions over a blotter with several fills per security and step x fee family x multiplier x flat / nested owner"
