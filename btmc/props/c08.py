"""C08 - idempotent updates, fresh reads, append-only history.

Explorer: `deviations` (DESIGN 3.4).  Base histories = all op sequences up to a length
bound; deviations = redundant updates / a first read of one property, placed at every
position.  Deciding step: exhaustive enumeration of (history, placement, node, property).
"""
import itertools
import json
import math

import numpy as np
import pandas as pd

from .. import alpha, bfs, ref, rt, tree as T

MOD = "btmc.props.c08"

SKIP_PROPS = {"members", "securities", "universe", "fixed_income", "full_name"}  # structural / input views (C19, C04)


def prop_names(n):
    names = []
    for cls in type(n).__mro__:
        for k, v in vars(cls).items():
            if isinstance(v, property) and not k.startswith("_") and k not in names and k not in SKIP_PROPS:
                names.append(k)
    return sorted(names)


def conv(v):
    """public value -> comparable plain data"""
    if isinstance(v, pd.Series):
        return ("series", [str(x) for x in v.index], [float(x) for x in v.values])
    if isinstance(v, pd.DataFrame):
        return ("frame", [str(x) for x in v.index], {str(c): [float(x) for x in v[c].values] for c in v.columns})
    if isinstance(v, (float, int, np.floating, np.integer)):
        return float(v)
    if isinstance(v, (bool, np.bool_)):
        return bool(v)
    if isinstance(v, (list, tuple)):
        return [getattr(x, "full_name", repr(x)) for x in v]
    return repr(v)


def same(a, b):
    if isinstance(a, float) and isinstance(b, float):
        return a == b or (a != a and b != b)
    if isinstance(a, tuple) and isinstance(b, tuple) and len(a) == len(b):
        return all(same(x, y) for x, y in zip(a, b))
    if isinstance(a, list) and isinstance(b, list) and len(a) == len(b):
        return all(same(x, y) for x, y in zip(a, b))
    if isinstance(a, dict) and isinstance(b, dict) and a.keys() == b.keys():
        return all(same(a[k], b[k]) for k in a)
    return a == b


def read(t, path, prop):
    n = t.node(path)
    try:
        return ("ok", conv(getattr(n, prop)))
    except Exception as e:
        return ("raises", type(e).__name__)


def node_paths(t):
    out = []

    def walk(n, path):
        out.append(path)
        for k, c in n.children.items():
            walk(c, path + [k])

    walk(t.root, [])
    return out


def last_label(v):
    if isinstance(v, tuple) and v and v[0] in ("series", "frame") and v[1]:
        return v[1][-1]
    return None


# ----------------------------------------------------------------------
# (b) fresh reads: for one prefix, every node x property


def fresh_reads_case(item):
    spec, prefix = item
    viols = []
    try:
        t0 = bfs.run_history(spec, prefix, False)
    except Exception as e:
        return ("prefix_refused" if rt.classify(e) == "guard" else "prefix_crash", [], 0)
    if t0 is None:
        return ("disabled", [], 0)
    # is the explicit update itself well-formed here?
    try:
        t0.root.update(t0.root.now)
    except Exception as e:
        if rt.classify(e) == "guard":
            return ("update_refused", [], 0)
        return ("ok", [{"rule": "crash", "observed": rt.describe(e), "expected": "update completes or raises a documented guard"}], 0)
    paths = node_paths(t0)
    n_cmp = 0
    # B: the tree after an explicit update; shared by all reads of this prefix (a read of a
    # refreshed tree changes nothing observable; where the raw state differs afterwards the
    # exact pair is re-run below)
    shared = t0
    key_b0 = T.canon_key(shared)
    snap_b0 = _plain(T.snapshot(shared))
    for path in paths:
        for prop in prop_names(t0.node(path)):
            try:
                a = bfs.run_history(spec, prefix, False)
                if path and any(p not in a.node(path[:i]).children for i, p in enumerate(path)):
                    continue
                now = str(a.root.now)
                ra = read(a, path, prop)  # first read, tree may have pending changes
                rb = read(shared, path, prop)
                n_cmp += 1
                if not same(ra, rb):
                    # the shared tree has been read before (a read of `price` re-marks an idle
                    # security, ...): decide on the exact pair - fresh tree, explicit update, this read
                    b2 = bfs.run_history(spec, prefix, False)
                    b2.root.update(b2.root.now)
                    rb = read(b2, path, prop)
                if not same(ra, rb):
                    viols.append({"rule": "read_not_fresh", "expected": {"node": path, "property": prop, "after_explicit_update": _short(rb)}, "observed": _short(ra), "sig": "fresh|%s.%s" % (type(a.node(path)).__name__, prop), "where": {"path": path, "prop": prop}})
                ll = last_label(ra[1]) if ra[0] == "ok" else None
                if ll is not None and ll > now:
                    viols.append({"rule": "series_beyond_now", "expected": {"node": path, "property": prop, "last_label<=": now}, "observed": ll, "sig": "beyond|%s.%s" % (type(a.node(path)).__name__, prop), "where": {"path": path, "prop": prop}})
                # every later read (no explicit update in between) must also see the refreshed tree:
                # the first read must not have cancelled the pending refresh for the other nodes
                sa = _plain(T.snapshot(a))
                if not same(sa, snap_b0):
                    b3 = bfs.run_history(spec, prefix, False)
                    b3.root.update(b3.root.now)
                    read(b3, path, prop)
                    sb3 = _plain(T.snapshot(b3))
                    if not same(sa, sb3):
                        diff = [(k, {x: (sa[k][x], sb3[k].get(x)) for x in sa[k] if not same(sa[k][x], sb3[k].get(x))}) for k in sa if k != "__order__" and not same(sa[k], sb3.get(k))]
                        viols.append({"rule": "later_reads_not_fresh", "expected": {"first_read": {"node": path, "property": prop}, "then": "every other read equals its value after an explicit update"}, "observed": diff[:3], "sig": "later|%s.%s" % (type(a.node(path)).__name__, prop), "where": {"path": path, "prop": prop}})
                # after the read, an explicit update must lead to the same raw state as update-then-read
                a.root.update(a.root.now)
                ka = T.canon_key(a)
                if ka != key_b0:
                    b = bfs.run_history(spec, prefix, False)
                    b.root.update(b.root.now)
                    read(b, path, prop)
                    b.root.update(b.root.now)
                    kb = T.canon_key(b)
                    if ka != kb:
                        ha, hb = T.histories(a), T.histories(b)
                        sa, sb = T.snapshot(a), T.snapshot(b)
                        if not (same(_plain(ha), _plain(hb)) and same(_plain(sa), _plain(sb))):
                            viols.append({"rule": "read_changes_future", "expected": {"node": path, "property": prop, "state": "same as after an explicit update"}, "observed": _diff(sa, sb, ha, hb), "where": {"path": path, "prop": prop}})
            except Exception as e:
                if rt.classify(e) != "guard":
                    viols.append({"rule": "crash", "observed": rt.describe(e), "where": {"path": path, "prop": prop}})
    return ("ok", viols, n_cmp)


def _plain(x):
    return json.loads(json.dumps(x, default=str))


def _short(r):
    s = json.dumps(r, default=str)
    return s if len(s) < 400 else s[:400] + "..."


def _diff(sa, sb, ha, hb):
    out = []
    for k in sa:
        if k != "__order__" and not same(_plain(sa[k]), _plain(sb.get(k))):
            out.append(("snapshot", k, {x: (sa[k][x], sb[k][x]) for x in sa[k] if not same(_plain(sa[k][x]), _plain(sb[k].get(x)))}))
    for k in ha:
        for s in ha[k]:
            if not same(_plain(ha[k][s]), _plain(hb.get(k, {}).get(s))):
                out.append(("history", k, s, ha[k][s][1], hb.get(k, {}).get(s, [None, None])[1]))
    return out[:4]


# ----------------------------------------------------------------------
# (a) idempotence + frozen past + series end


def _readout(t):
    """every public property of every node, as plain data"""
    out = {}
    for path in node_paths(t):
        for prop in prop_names(t.node(path)):
            out[">".join(path) + "." + prop] = read(t, path, prop)
    return out


def _run_with_updates(spec, hist, j, k):
    """history with k redundant root.update(now) inserted before position j (k == "reads": a read
    of every public property of every node instead); records the rows of every date at the
    moment the clock leaves it."""
    t = T.Tree(spec)
    frozen = {}
    for idx, op in enumerate(list(hist) + [None]):
        if idx == j:
            if k == "reads":
                _readout(t)
            else:
                for _ in range(k):
                    t.root.update(t.root.now)
        if op is None:
            break
        if op[0] == "next":
            t.root.update(t.root.now)
            if t.i < len(t.dates) - 1:
                frozen[str(t.root.now)] = T.histories(t)
        if not t.apply(op):
            return None, None
    return t, frozen


def _is_strategy_child(spec, o):
    return spec["shape"] in ("T2", "T3", "F2") and o[2] in ("s1", "s2", "s11", "sf")


def idem_case(item):
    spec, hist = item[0], item[1]
    kmax = item[2] if len(item) > 2 else 3
    reads_maxlen = item[3] if len(item) > 3 else 99
    viols = []
    nruns = 0
    for j in range(len(hist) + 1):
        res = []
        status = None
        def uses_cached_weights(o):
            return o[0] in ("allocself", "stransact") or (o[0] in ("batch", "seq") and any(uses_cached_weights(x) for x in o[1])) or (o[0] == "alloc" and _is_strategy_child(spec, o)) or (o[0] in ("reb", "rebbase", "close", "flatten") and spec["shape"] in ("T2", "T3", "F2"))

        # zero updates is comparable only when nothing later reads weights cached by an update
        ks = tuple(range(1, kmax + 1)) if any(uses_cached_weights(o) for o in hist[j:]) else tuple(range(0, kmax + 1))
        for k in ks:
            try:
                t, frozen = _run_with_updates(spec, hist, j, k)
                if t is None:
                    status = "disabled"
                    break
                nruns += 1
                key = T.canon_key(t)
                snap = T.snapshot(t)
                hs = T.histories(t)
                res.append((k, key, snap, hs, frozen, str(t.root.now)))
            except Exception as e:
                if rt.classify(e) == "guard":
                    status = "refused"
                else:
                    viols.append({"rule": "crash", "observed": rt.describe(e), "where": {"j": j, "k": k}})
                    status = "crash"
                break
        if status is not None or len(res) < len(ks):
            if status in ("disabled",):
                return ("disabled", viols, nruns)
            continue
        k1 = res[0]
        for (k, key, snap, hs, frozen, now) in res[1:]:
            # (with no update at all the raw state still carries the pending flag: observables only)
            if (k1[0] != 0 and key != k1[1]) or not same(_plain(snap), _plain(k1[2])) or not same(_plain(hs), _plain(k1[3])):
                viols.append({"rule": "update_not_idempotent", "expected": {"position": j, "updates": k1[0]}, "observed": {"updates": k, "diff": _diff(k1[2], snap, k1[3], hs)}, "where": {"j": j, "k": k}})
        # a read of everything at the same place instead: whatever is read afterwards equals what is
        # read after an explicit update there (a read leaves nothing behind that later reads can see)
        if j < len(hist) and len(hist) <= reads_maxlen:
            try:
                ta, _ = _run_with_updates(spec, hist, j, 1)
                tb, _ = _run_with_updates(spec, hist, j, "reads")
                if ta is not None and tb is not None:
                    nruns += 2
                    ra, rb = _plain(_readout(ta)), _plain(_readout(tb))
                    bad = sorted(k_ for k_ in ra if not same(ra[k_], rb.get(k_)))
                    if bad:
                        viols.append({"rule": "earlier_read_changes_later_reads", "expected": {"position": j, "equals": "the reads after an explicit update at that position", "first_difference": {bad[0]: _short(ra[bad[0]])}}, "observed": {bad[0]: _short(rb.get(bad[0]))}, "where": {"j": j, "k": "reads"}})
            except Exception as e:
                if rt.classify(e) != "guard":
                    viols.append({"rule": "crash", "observed": rt.describe(e), "where": {"j": j, "k": "reads"}})
        # frozen past + series ends at now (on the k=1 run)
        k, key, snap, hs, frozen, now = k1
        for label, old in frozen.items():
            for name, d in old.items():
                for s, (labels, vals) in d.items():
                    cur = hs.get(name, {}).get(s)
                    if cur is None:
                        continue
                    for lab, v in zip(labels, vals):
                        if lab <= label:
                            try:
                                c = cur[1][cur[0].index(lab)]
                            except ValueError:
                                c = None
                            if c is None or not (c == v or (c != c and v != v)):
                                viols.append({"rule": "past_row_changed", "expected": {"node": name, "series": s, "label": lab, "value_when_clock_left": v}, "observed": c, "where": {"j": j}})
        for name, d in hs.items():
            for s, (labels, vals) in d.items():
                if labels and labels[-1] > now:
                    viols.append({"rule": "series_beyond_now", "expected": {"node": name, "series": s, "last_label<=": now}, "observed": labels[-1], "where": {"j": j}})
    return ("ok", viols[:20], nruns)


def backtest_case(spec):
    """a finished backtest: a redundant update of the last date changes nothing that was recorded
    (the loop has closed the books on every date, whatever the algos left pending)"""
    from .. import runcheck, runfam as R

    res = runcheck.execute(spec)
    if res["status"] != "ok":
        return (res["status"], [], 0)
    b = res["b"]
    h0 = _plain(res["hist"])
    viols = []
    for k in (1, 2):
        b.strategy.update(b.strategy.now)
        h1 = _plain(R.run_histories(b))
        if not same(h0, h1):
            diff = []
            for name in h0:
                for s_ in h0[name]:
                    if not same(h0[name][s_], h1.get(name, {}).get(s_)):
                        diff.append((name, s_))
            viols.append({"rule": "update_after_run_changes_history", "expected": "recorded histories unchanged by a redundant update of the last date", "observed": diff[:6], "where": {"updates": k}})
            break
    # the same backtest with a redundant root.update(now) at the end of the stack on every date
    if spec.get("tree", "flat").startswith("flat") and not viols:
        sp2 = dict(spec, stack=dict(spec.get("stack") or {}, tail_update=True))
        res2 = runcheck.execute(sp2)
        if res2["status"] == "ok":
            h2 = _plain(res2["hist"])
            if not same(h0, h2):
                diff = [(name, s_) for name in h0 for s_ in h0[name] if not same(h0[name][s_], h2.get(name, {}).get(s_))]
                viols.append({"rule": "redundant_update_in_stack_changes_history", "expected": "identical histories with and without a redundant update at the end of the stack", "observed": diff[:6], "where": {"tail_update": True}})
    return ("ok", viols, len(res["trades"]))


def replay(case):
    if case.get("kind") == "backtest":
        return backtest_case(case["spec"])[1]
    if case.get("kind") == "fresh":
        vs = fresh_reads_case((case["spec"], case["history"]))[1]
    else:
        vs = idem_case((case["spec"], case["history"]))[1]
    return vs


def specs(tier, seed):
    v = [
        {"integer": True, "fee": None, "spread": None, "mult": {}},
        {"integer": False, "fee": "flat", "spread": 0.5, "mult": {"a": 2}},
        {"integer": True, "fee": "prop", "spread": 0.5, "mult": {}},
    ]
    out = []
    if tier == "quick":
        a, b = v[seed % 3], v[(seed + 1) % 3]
        # (the longest histories run with bid/offer accounting on: same-date close / update / trade sequences)
        out.append(("T1", dict(v[1 + seed % 2], shape="T1", capital=64.0), 2, 3))
        out.append(("T2", dict(b, shape="T2", capital=64.0, prefund=[[[], "s1", 24.0], [[], "s2", 8.0]]), 2, 2))
        out.append(("F1", dict(b, shape="F1", capital=64.0), 1, 2))
        out.append(("T3", dict(a, shape="T3", capital=64.0, prefund=[[[], "s1", 32.0], [["s1"], "s11", 16.0]]), 1, 2))
        # risk numbers with history: the rows of earlier dates are as frozen as any other recorded row
        out.append(("T1risk", dict(v[0], shape="T1", capital=64.0, unit_risk=True, preops=[["transact", [], "a", 3.0], ["algos", [], {}, "UpdateRisk", ["M1", 2]]]), 1, 3))
        # quotes of exactly zero: a trade there moves no cash at all
        out.append(("T1zero", dict(v[2], shape="T1", capital=64.0, prices={"a": [4.0, 0.0, 2.0, 0.0], "b": [1.0, 2.0, 0.0, 1.0]}, preops=[["next"]]), 1, 2))
        # a tree whose first update is not on the first row of its data (a run that starts late)
        out.append(("T1late", dict(v[1 + seed % 2], shape="T1", capital=64.0, start_row=2), 1, 2))
        out.append(("T2late", dict(b, shape="T2", capital=64.0, start_row=1, prefund=[[[], "s1", 24.0], [[], "s2", 8.0]]), 1, 1))
    else:
        for x in v:
            # (late starts at the bounds the quick tier runs them with, all cost variants at once)
            if x is not v[0]:
                out.append(("T1late", dict(x, shape="T1", capital=64.0, start_row=2), 1, 2))
            out.append(("T2late", dict(x, shape="T2", capital=64.0, start_row=1, prefund=[[[], "s1", 24.0], [[], "s2", 8.0]]), 1, 1))
            out.append(("T1", dict(x, shape="T1", capital=64.0), 2, 3))  # (length 4 = 16^4 histories x 5 positions x 4 runs does not fit into the hour this tier has)
            out.append(("T2", dict(x, shape="T2", capital=64.0, prefund=[[[], "s1", 24.0], [[], "s2", 8.0]]), 2, 3))
            out.append(("T2u", dict(x, shape="T2", capital=64.0), 2, 3))
            out.append(("T3", dict(x, shape="T3", capital=64.0, prefund=[[[], "s1", 32.0], [["s1"], "s11", 16.0]]), 2, 3))
            out.append(("F1", dict(x, shape="F1", capital=64.0), 2, 3))
        out.append(("T1dec", dict(v[1], shape="T1", capital=64.0, alpha="decimal"), 2, 3))
        out.append(("T1zero", dict(v[2], shape="T1", capital=64.0, prices={"a": [4.0, 0.0, 2.0, 0.0], "b": [1.0, 2.0, 0.0, 1.0]}, preops=[["next"]]), 2, 3))
        out.append(("F2", dict(v[0], shape="F2", capital=64.0), 2, 3))
    return out


def ops_for(shape, label=""):
    if label == "T1risk":
        R = []
        return [["next"], ["update"], ["close", R, "a"], ["transact", R, "a", 3.0], ["transact", R, "b", -2.0], ["algos", R, {}, "UpdateRisk", ["M1", 2]]]
    return alpha.small_ops(shape)


def run(ctx):
    ctx.rule = "deviation placement: every op history up to the length bound x every position x {0,1,2,3 redundant updates (quick: 0,1,2; zero only where no later op reads update-cached weights)} and x every (node, public property) as the first read after the prefix; a read of every property at every position against an update there (histories up to length 2, thorough 3); a case is non-trivial if it is a distinct (history, placement) that executed"
    ctx.assumptions += [
        "histories in which the explicit root.update(now) itself raises a documented guard are ill-formed states and are skipped",
        "properties enumerated by introspection of the node classes; structural views (members, securities, universe, full_name, fixed_income) are C19/C04",
        "equality is exact (same code path in both runs)",
    ]
    kinds = ["py"] if ctx.tier == "quick" else ["py", "cy"]
    plan = specs(ctx.tier, ctx.seed)
    ctx.bounds = {"configs": [(p[0], {"fresh_read_prefix_len": p[2], "idempotence_history_len": p[3]}) for p in plan], "builds": kinds}
    for kind in kinds:
        for label, spec, lfresh, lidem in plan:
            ops = ops_for(spec["shape"], label)
            prefixes = [list(p) for n in range(0, lfresh + 1) for p in itertools.product(ops, repeat=n)]
            if ctx.tier == "quick":
                # the longest prefixes start with every other op of the alphabet (rotating with the seed)
                first = [o for i, o in enumerate(ops) if (i + ctx.seed) % 2 == 0]
                prefixes = [p for p in prefixes if len(p) < max(2, lfresh) or p[0] in first]
            ncmp = 0
            for (sp, pf), (status, viols, n) in ctx.run(kind, MOD, "fresh_reads_case", [(spec, p) for p in prefixes], chunksize=2):
                ctx.add(states=1 if status == "ok" else 0, transitions=2 * n, traces_validated_against_impl=2 * n, evaluations=n, refused=1 if status.endswith("refused") else 0)
                ncmp += n
                if n:
                    ctx.mark(("fresh", kind, label, json.dumps(pf)))
                for v in viols:
                    ctx.violation(dict(v, build=kind, module=MOD, case={"kind": "fresh", "spec": spec, "history": pf, "where": v.get("where")}))
            hists = [list(p) for n in range(1, lidem + 1) for p in itertools.product(ops, repeat=n)]
            if ctx.tier == "quick":
                first = [o for i, o in enumerate(ops) if (i + ctx.seed) % 2 == 0]
                hists = [h for h in hists if len(h) < max(3, lidem) or h[0] in first]
            if kind == "cy":
                hists = [h for h in hists if len(h) < lidem or lidem <= 2]
            nr = 0
            for (sp, h, _k, _r), (status, viols, n) in ctx.run(kind, MOD, "idem_case", [(spec, h, 2 if ctx.tier == "quick" else 3, 2 if ctx.tier == "quick" else 3) for h in hists], chunksize=8):
                ctx.add(states=1 if status == "ok" else 0, transitions=n, traces_validated_against_impl=n, evaluations=n)
                nr += n
                if n:
                    ctx.mark(("idem", kind, label, json.dumps(h)))
                for v in viols:
                    ctx.violation(dict(v, build=kind, module=MOD, case={"kind": "idem", "spec": spec, "history": h, "where": v.get("where")}))
            ctx.extra.setdefault("deviations", []).append({"config": label, "build": kind, "prefixes": len(prefixes), "read_comparisons": ncmp, "histories": len(hists), "idempotence_runs": nr})
            ctx.sample({"config": label, "history": hists[len(hists) // 2], "deviation": "1/2/3 updates at every position; first read of every (node, property) after every prefix"})
        from .. import runfam as R

        fam = [s_ for s_ in R.family("quick", ctx.seed) if s_["stack"]["rebal"] in ("lazy", "overtime") or s_["stack"]["gate"] in ("weekly", "monthly", "pte", "once") or s_["stack"]["mod"] != "none"]
        nb = 0
        for spec, (status, viols, ntr) in ctx.run(kind, MOD, "backtest_case", fam, chunksize=4):
            ctx.add(states=1 if status == "ok" else 0, transitions=3, traces_validated_against_impl=1, evaluations=1)
            if status == "ok" and ntr:
                nb += 1
                ctx.mark(("backtest", kind, json.dumps(spec, sort_keys=True)))
            for v in viols:
                ctx.violation(dict(v, build=kind, module=MOD, case={"kind": "backtest", "spec": spec}))
        ctx.extra.setdefault("finished_backtests", []).append({"build": kind, "runs": len(fam), "with_trades": nb})
