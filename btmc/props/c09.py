"""C09 - a sub-strategy's index equals its stand-alone index, whatever it is allocated.

Explorer: `product` - calendar-gated child definitions x parent allocation schedules x data x
position mode x commission x bid/offer x parent capital; oracle: the child's price series and
the parent's universe column equal the stand-alone backtest's index date by date."""
import copy
import json

import numpy as np
import pandas as pd

from .. import rt, runfam as R, tree as T

MOD = "btmc.props.c09"

SCHEDULES = {
    "never": None,
    "once": "once",
    "rotate": [0.25, 1.0, 0.0, 0.25, 0.0, 1.0, 0.25],
    "defund_refund": [0.5, 0.5, 0.0, 0.0, 0.75, 0.75, 0.0, 0.5],
    "lever": [1.0, 1.5, 0.5, 1.0],
    "short_child": [-0.25, 0.5, -0.25],
    "parent_short_a": [0.25],
}


def child_def(spec, idx):
    bt = rt.bt()
    A = bt.algos
    st = dict(R.BASE)
    st.update(spec["child"])
    kids = spec.get("child_tickers")
    if spec.get("three_levels"):
        # the child is itself a strategy of strategies: it rotates between two grandchildren on
        # their own price histories, so one of them is unfunded for part of the run
        g1 = bt.Strategy("g1", R.stack(st, idx), ["a", "b"])
        g2 = bt.Strategy("g2", [A.RunWeekly(), A.SelectThese(["d", "b"]), A.WeighSpecified(d=0.75, b=0.25), A.Rebalance()], ["b", "d"])
        mid = [A.RunWeekly(), A.SelectAll(), A.SelectMomentum(1, lookback=pd.DateOffset(days=4)), A.WeighEqually(), A.Rebalance()]
        return bt.Strategy("s1", mid, [g1, g2])
    return bt.Strategy("s1", R.stack(st, idx), list(kids) if kids else None)


def case(spec):
    bt = rt.bt()
    A = bt.algos
    data = R.table(spec.get("data", "d25"), spec.get("alpha", "exact"), late=spec.get("late", True))
    if spec.get("crash_ticker"):
        # the child's own levered book loses more than everything on this path
        col = spec["crash_ticker"]
        v = data[col].values.copy()
        k = len(v) // 2
        v[k:] = v[k:] * 8.0
        data[col] = v
    if spec.get("tie"):
        # two tickers share their history exactly up to a date and diverge afterwards: ranking ties
        x, y, k = spec["tie"]
        v = data[x].values.copy()
        w = data[y].values.copy()
        w[:k] = v[:k]
        w[k:] = v[k - 1] * (w[k:] / w[k - 1]) if k else w[k:]
        data[y] = w
    idx = data.index
    ad = R.additional(idx, spec, data)
    fee = spec.get("fee")
    integer = bool(spec.get("integer", True))
    viols = []
    try:
        rt.seed_rng(0)
        child = child_def(spec, idx)
        if spec.get("reuse_definition"):
            # the same definition object was used before, by a backtest in the other position mode
            bt.Backtest(child, data, integer_positions=not integer, progress_bar=False, additional_data={k: v for k, v in ad.items() if k not in ("pw", "pn")}).run()
        sched = SCHEDULES[spec["schedule"]]
        if sched is None:
            palgos = []
        elif sched == "once":
            palgos = [A.RunOnce(), A.WeighSpecified(s1=0.5), A.Rebalance()]
        else:
            pw = pd.DataFrame({"s1": [sched[i % len(sched)] for i in range(len(idx))]}, index=idx)
            ad["pw"] = pw
            palgos = [A.RunDaily(), A.WeighTarget("pw"), A.Rebalance()]
        extra = ["a"] if (spec.get("parent_holds") or spec["schedule"] == "parent_short_a") else []
        if extra and palgos and sched != "once":
            # parent_short_a: the parent itself is short 3x a ticker that multiplies - it goes bankrupt
            # in mid-run while the child's own book stays solvent
            ad["pw"]["a"] = -3.0 if spec["schedule"] == "parent_short_a" else 0.25
        if spec.get("fi_parent"):
            # a notional-weighted parent: the child's index is still what it sees in its universe
            ad["pn"] = pd.Series(float(spec.get("capital", 1e6)), index=idx)
            if sched == "once":
                palgos = [A.RunOnce(), A.SetNotional("pn"), A.WeighSpecified(s1=0.5), A.Rebalance()]
            parent = bt.FixedIncomeStrategy("r", palgos, [child] + extra)
        else:
            parent = bt.Strategy("r", palgos, [child] + extra)
        nested = bt.Backtest(parent, data, initial_capital=float(spec.get("capital", 1e6)), commissions=T.fee_fn(fee), integer_positions=integer, progress_bar=False, additional_data=dict(ad))
        nested.run()
        rt.seed_rng(0)
        alone = bt.Backtest(child if spec.get("reuse_definition") else child_def(spec, idx), data, commissions=T.fee_fn(fee), integer_positions=integer, progress_bar=False, additional_data={k: v for k, v in ad.items() if k not in ("pw", "pn")})
        alone.run()
    except Exception as e:
        if rt.classify(e) == "guard":
            return ("refused", [], 0, False)
        return ("crash", [{"rule": "crash", "observed": rt.describe(e)}], 0, False)
    c = nested.strategy["s1"]
    a = [float(x) for x in alone.strategy.prices.values]
    b = [float(x) for x in c.prices.values]
    col = [float(x) for x in nested.strategy._universe["s1"].values]
    labs = [str(x) for x in c.prices.index]
    moved = sum(1 for x in a if abs(x - 100.0) > 1e-9)
    if len(a) != len(b):
        viols.append({"rule": "child_index_length", "expected": len(a), "observed": len(b)})
    else:
        for i, (x, y) in enumerate(zip(a, b)):
            if not (abs(x - y) <= 1e-12 * max(1.0, abs(x)) or (x != x and y != y)):
                viols.append({"rule": "child_index_equals_standalone", "expected": {"date": labs[i], "standalone_price": x, "standalone_bankrupt": bool(alone.strategy.bankrupt)}, "observed": y})
                break
        for i in range(1, len(a)):
            y = col[i]
            if not (abs(a[i] - y) <= 1e-12 * max(1.0, abs(a[i])) or (a[i] != a[i] and y != y)):
                viols.append({"rule": "parent_universe_column", "expected": {"date": labs[i], "price": a[i]}, "observed": y})
                break
    funded = any(abs(float(x)) > 0 for x in c.values.values)
    if spec["schedule"] == "parent_short_a" and not bool(nested.strategy.bankrupt):
        viols.append({"rule": "vacuity", "expected": "the parent of this scenario goes bankrupt", "observed": "it did not"})
    return ("ok", viols, moved, funded)


def replay(c):
    return case(c["spec"])[1]


def specs(tier, seed):
    out = []
    gates = ["daily", "weekly", "weekly_end", "monthly", "monthly_end", "quarterly", "yearly"]
    bodies = [
        {"select": "all", "weigh": "equal"},
        {"select": "these", "weigh": "short"},
        {"select": "momentum", "weigh": "equal"},
        {"select": "hasdata", "weigh": "specified"},
        {"select": "regex", "weigh": "target"},
        {"select": "all", "weigh": "equal", "mod": "limitdeltas"},
        {"select": "all", "weigh": "invvol", "warm": "after_gate"},
        {"select": "all", "weigh": "equal", "rebal": "overtime"},
        {"select": "these", "weigh": "specified", "rebal": "lazy"},  # trades booked with update=False, the refresh left to the loop
    ]
    modes = [(True, None, None), (False, None, None), (True, "propdec", None), (False, "maxflat", 0.25), (True, None, 0.5), (False, "pershare", None)]
    caps = [5e3, 1e6, 1e9]
    scheds = [k for k in SCHEDULES if k != "parent_short_a"]
    if tier == "quick":
        k = seed % 3
        for gi, g in enumerate(gates):
            for bi, body in enumerate(bodies):
                for si, sc in enumerate(scheds):
                    if (gi + bi + si + k) % 3:
                        continue
                    m = modes[(gi + bi + si) % len(modes)]
                    out.append({"child": dict(body, gate=g), "schedule": sc, "integer": m[0], "fee": m[1], "spread": m[2], "capital": caps[(gi + si) % 3], "data": "d25", "alpha": "exact" if (gi + bi) % 2 == 0 else "decimal", "parent_holds": (bi + si) % 2 == 0})
    else:
        for g in gates:
            for body in bodies:
                for sc in scheds:
                    for mi, m in enumerate(modes):
                        out.append({"child": dict(body, gate=g), "schedule": sc, "integer": m[0], "fee": m[1], "spread": m[2], "capital": caps[mi % 3], "data": "d25", "alpha": "exact" if mi % 2 == 0 else "decimal", "parent_holds": mi % 2 == 0})
    # three levels: the child rotates between two grandchildren by their price history
    for g in ("daily", "weekly", "monthly"):
        for sc in ("once", "rotate", "defund_refund", "never"):
            for mi, m in enumerate(modes[:4]):
                out.append({"child": {"gate": g, "select": "these", "weigh": "specified"}, "three_levels": True, "schedule": sc, "integer": m[0], "fee": m[1], "spread": m[2], "capital": 1e6, "data": "d25", "alpha": "exact" if mi % 2 == 0 else "decimal", "late": False})
    # ranking ties inside a child whose declared ticker order differs from the data's column order
    for g in ("weekly", "monthly", "daily"):
        for kids in (["d", "b", "a"], ["b", "a"], ["a", "b", "d"]):
            for tie in (("a", "b", 9), ("a", "b", 14), ("b", "d", 11)):
                if tie[0] not in kids or tie[1] not in kids:
                    continue
                for sc in ("once", "rotate"):
                    out.append({"child": {"gate": g, "select": "momentum", "weigh": "equal"}, "child_tickers": kids, "tie": list(tie), "schedule": sc, "integer": False, "fee": None, "spread": None, "capital": 1e6, "data": "d25", "alpha": "exact", "late": False})
    # one definition object that has been through a backtest in the other position mode before it is
    # compared nested against stand-alone (Backtest works on copies: the definition must be unaffected)
    for g in ("daily", "weekly"):
        for body in ({"select": "these", "weigh": "specified"}, {"select": "all", "weigh": "equal"}):
            for integer in (True, False):
                for sc in ("once", "rotate"):
                    out.append({"child": dict(body, gate=g), "reuse_definition": True, "schedule": sc, "integer": integer, "fee": None, "spread": None, "capital": 5e3, "data": "d25", "alpha": "exact", "late": False})
    # a notional-weighted (fixed-income) parent publishes its sub-strategies' indices too
    for g in ("daily", "weekly", "monthly"):
        for body in ({"select": "these", "weigh": "specified"}, {"select": "all", "weigh": "equal"}):
            for sc in ("never", "once"):
                out.append({"child": dict(body, gate=g), "fi_parent": True, "schedule": sc, "integer": False, "fee": None, "spread": None, "capital": 1e6, "data": "d25", "alpha": "exact", "late": False})
    # the parent goes bankrupt in mid-run; the child keeps rebalancing on its own calendar
    for g in ("daily", "weekly", "weekly_end", "monthly"):
        for body in ({"select": "these", "weigh": "specified"}, {"select": "all", "weigh": "equal"}):
            for integer in (True, False):
                out.append({"child": dict(body, gate=g), "schedule": "parent_short_a", "integer": integer, "fee": None, "spread": None, "capital": 1e6, "data": "d25", "alpha": "exact", "crash_ticker": "a", "late": False})
    # a child that goes bankrupt on its own
    for g in ("daily", "weekly", "monthly"):
        for sc in ("once", "rotate", "never"):
            for integer in (True, False):
                out.append({"child": {"gate": g, "select": "these", "weigh": "short"}, "schedule": sc, "integer": integer, "fee": None, "spread": None, "capital": 1e6, "data": "d25", "alpha": "exact", "crash_ticker": "b", "late": False, "child_lever": True})
    return out


def run(ctx):
    ctx.rule = "calendar-gated child definitions (7 gates x 9 bodies incl. stateful and random ones) x parent schedules (never funded, funded once, re-weighted daily incl. zero, de-funded then re-funded, levered, shorted) x position mode x commission x bid/offer x parent capital; a case is non-trivial if the stand-alone index moves and the case completed"
    ctx.assumptions += [
        "child definitions are deterministic (no random algos: the paper copy and the real child share the RNG) and their stack starts with a calendar scheduler (property's own quantifier); ungated stacks act on the synthetic pre-start row inside the paper copy",
        "equality to 1e-12 relative (same code path, same notional)",
    ]
    sp = specs(ctx.tier, ctx.seed)
    kinds = ["py"] if ctx.tier == "quick" else ["py", "cy"]
    ctx.bounds = {"pairs_of_runs": len(sp), "builds": kinds}
    for kind in kinds:
        use = sp if kind == "py" else sp[::4]
        ok = refused = 0
        for spec, (status, viols, moved, funded) in ctx.run(kind, MOD, "case", use, chunksize=2):
            ctx.add(transitions=2, traces_validated_against_impl=2, evaluations=1)
            if status == "refused":
                refused += 1
                ctx.add(refused=1)
            if status == "ok":
                ok += 1
                ctx.add(states=1)
                if moved:
                    ctx.mark((kind, json.dumps(spec, sort_keys=True)))
            for v in viols:
                ctx.violation(dict(v, build=kind, module=MOD, case={"spec": spec}))
        ctx.extra.setdefault("pairs", []).append({"build": kind, "pairs": len(use), "completed": ok, "refused": refused})
        if ok < 0.6 * len(use):
            ctx.violation({"rule": "vacuity", "build": kind, "observed": "only %d of %d nested/stand-alone pairs completed" % (ok, len(use)), "expected": ">= 60%"})
    ctx.sample({"spec": sp[7]})
