"""C10 - well-formed runs complete with finite results; ill-formed states raise."""
import contextlib
import io
import itertools
import math

import numpy as np
import pandas as pd

from .. import ledger, ref, rt, runcheck, runfam as R, tree as T

MOD = "btmc.props.c10"


# ----------------------------------------------------------------------
# (a) well-formed runs


def _finite_series(hist):
    bad = []
    for name, d in hist.items():
        for s, v in d.items():
            if s.startswith("__"):
                continue
            if d["__kind__"] == "X" and s == "prices":
                continue  # input column (NaN before listing)
            for lab, x in zip(v[0], v[1]):
                if not math.isfinite(x):
                    bad.append((name, s, lab, x))
                    break
    return bad


def reports(b):
    """Calls every report; returns list of (report, error description)."""
    bt = rt.bt()
    out = []

    def attempt(name, fn):
        try:
            with contextlib.redirect_stdout(io.StringIO()):
                return fn()
        except Exception as e:
            out.append((name, rt.describe(e)))
            return None

    res = attempt("Result", lambda: bt.backtest.Result(b))
    if res is not None:
        attempt("stats", lambda: res.stats)
        attempt("display", lambda: res.display())
        attempt("display_monthly_returns", lambda: res.display_monthly_returns())
        attempt("get_weights", lambda: res.get_weights())
        attempt("get_security_weights", lambda: res.get_security_weights())
        attempt("get_transactions", lambda: res.get_transactions())
    if bool(b.strategy.fixed_income):
        # the renormalised fixed-income report, normalising value given as a number, a series, a dict
        import numpy as np

        def finite(r):
            v = r.prices.iloc[:, 0].values
            if not np.all(np.isfinite(v)):
                raise ValueError("non-finite renormalised prices")
            return r

        attempt("RenormalizedFixedIncomeResult(number)", lambda: finite(bt.backtest.RenormalizedFixedIncomeResult(64.0, b)))
        attempt("RenormalizedFixedIncomeResult(series)", lambda: finite(bt.backtest.RenormalizedFixedIncomeResult(pd.Series(64.0, index=b.strategy.values.index), b)))
        attempt("RenormalizedFixedIncomeResult(dict)", lambda: finite(bt.backtest.RenormalizedFixedIncomeResult({b.name: 64.0}, b)))
    attempt("weights", lambda: b.weights)
    attempt("security_weights", lambda: b.security_weights)
    attempt("positions", lambda: b.positions)
    attempt("turnover", lambda: b.turnover)
    attempt("herfindahl_index", lambda: b.herfindahl_index)
    return out


def run_case(spec):
    res = runcheck.execute(spec)
    viols = []
    if res["status"] == "guard":
        if runcheck.sizing_defect(spec, res):
            viols.append({"rule": "run_completes", "sig": runcheck.sizing_sig(spec, res), "expected": "a well-formed run completes", "observed": {"error": res["err"], "allocate_call": res["failed_alloc"]}})
        else:
            viols.append({"rule": "run_completes", "sig": "guard|%s" % res["guard"], "expected": "a well-formed run completes", "observed": {"error": res["err"], "allocate_call": res.get("failed_alloc")}})
        return ("died", viols, None)
    if res["status"] == "crash":
        st = spec.get("stack") or {}
        sig = "crash|weigh=%s|mod=%s|%s" % (st.get("weigh"), st.get("mod"), res["err"].split(":")[0])
        viols.append({"rule": "run_completes", "sig": sig, "expected": "a well-formed run completes", "observed": res["err"]})
        return ("died", viols, None)
    b = res["b"]
    bad = _finite_series(res["hist"])
    for name, s, lab, x in bad[:3]:
        viols.append({"rule": "finite_series", "expected": "finite", "observed": {"node": name, "series": s, "label": lab, "value": x}})
    nsec = sum(1 for n in res["hist"].values() if n["__kind__"] == "X")
    for name, err in reports(b):
        sig = None
        if name == "get_transactions" and nsec == 0:
            sig = "get_transactions|no-securities-in-tree|" + err.split(":")[0]
        viols.append({"rule": "report_completes", "sig": sig, "expected": "%s completes" % name, "observed": err})
    return ("ok", viols, len(res["trades"]))


# ----------------------------------------------------------------------
# (b) ill-formed situations: must raise, must not touch the past


def _past_rows(t):
    h = T.histories(t)
    now = str(t.root.now)
    out = {}
    for name, d in h.items():
        for s, (labels, vals) in d.items():
            out[(name, s)] = [(lab, v) for lab, v in zip(labels, vals) if lab < now]
    return out


def _expect_raise(t, fn, what):
    """fn() must raise; rows of earlier dates must be unchanged afterwards."""
    try:
        before = _past_rows(t)
    except Exception:
        before = None
    try:
        fn()
    except Exception as e:
        kind = rt.classify(e)
        after_ok = True
        if before is not None:
            try:
                # read the raw frames: the tree may be unreadable through properties now
                for n in t.root.members:
                    for s in ("_values", "_cash", "_positions", "_prices"):
                        ser = getattr(n, s, None)
                        if ser is None or not hasattr(ser, "index"):
                            continue
                        pub = {"_values": "values", "_cash": "cash", "_positions": "positions", "_prices": "prices"}[s]
                        old = before.get((n.full_name, pub))
                        if old is None:
                            continue
                        cur = {str(k): float(v) for k, v in zip(ser.index, ser.values)}
                        for lab, v in old:
                            c = cur.get(lab)
                            if c is None or not (c == v or (c != c and v != v)):
                                after_ok = False
            except Exception:
                pass
        return ("raised", kind, after_ok, rt.describe(e))
    return ("not_raised", None, True, None)


def illformed_case(item):
    """item = {"cls":..., params}  -> (outcome, viols)"""
    bt = rt.bt()
    cls = item["cls"]
    integer = item.get("integer", True)
    viols = []

    def V(rule, observed, expected="raises an error"):
        viols.append({"rule": rule, "expected": expected, "observed": observed})

    nan = float("nan")
    if cls in ("alloc_nan_price", "alloc_zero_price", "transact_nan_price", "nan_price_open_position"):
        k = item["date"]  # the date index at which b is NaN / zero
        bad = 0.0 if cls == "alloc_zero_price" else nan
        pb = [1.0, 2.0, 0.5, 1.0]
        shape = item["shape"]
        path = [] if shape == "T1" else ["s1"]
        if cls == "nan_price_open_position":
            pb[k] = bad
            spec = {"shape": shape, "integer": integer, "capital": 64.0, "prices": {"b": pb}, "fee": item.get("fee")}
            if shape == "T2":
                spec["prefund"] = [[[], "s1", 24.0]]
            t = T.Tree(spec)
            for _ in range(k - 1):
                t.apply(["next"])
            t.apply(["transact", path, "b", 3.0] if item["op"] == "transact" else ["alloc", path, "b", 8.0])
            t.root.value
            r = _expect_raise(t, lambda: (t.apply(["next"]), t.root.value), cls)
        else:
            pb[k] = bad
            spec = {"shape": shape, "integer": integer, "capital": 64.0, "prices": {"b": pb}, "fee": item.get("fee")}
            if shape == "T2":
                spec["prefund"] = [[[], "s1", 24.0]]
            t = T.Tree(spec)
            for _ in range(k):
                t.apply(["next"])
            op = item["op"]
            if cls == "transact_nan_price":
                fn = lambda: (t.apply(["transact", path, "b", 3.0]), t.root.value, t.node(path)["b"].value)  # noqa: E731
            elif op == "alloc":
                fn = lambda: (t.apply(["alloc", path, "b", 8.0]), t.root.value)  # noqa: E731
            elif op == "reb":
                fn = lambda: (t.apply(["reb", path, "b", 0.5]), t.root.value)  # noqa: E731
            else:
                fn = lambda: (t.apply(["algos", path, {"weights": {"b": 0.5}}, "Rebalance"]), t.root.value)  # noqa: E731
            r = _expect_raise(t, fn, cls)
    elif cls == "nan_coupon_open_position":
        k = item["date"]
        spec = {"shape": "F1", "integer": integer, "capital": 64.0}
        t = T.Tree(spec)
        cp = t.kw["coupons"]
        cp.iloc[k, list(cp.columns).index(item["sec"])] = nan
        t = T.Tree(spec)
        t.kw["coupons"].iloc[k, list(t.kw["coupons"].columns).index(item["sec"])] = nan
        # rebuild with the modified coupon table
        t.root.setup(t.data, **t.kw)
        t.root.adjust(64.0)
        t.root.update(t.dates[0])
        t.i = 0
        if item.get("when") == "opened_on_date":
            # flat until the date of the missing coupon (nothing wrong so far); the position is opened on
            # that very date: it is open at the end of it and its coupon cannot be determined
            for _ in range(k):
                t.apply(["next"])
            t.root.value
            r = _expect_raise(t, lambda: (t.apply(["transact", [], item["sec"], 4.0]), t.root.value), cls)
        else:
            for _ in range(k - 1):
                t.apply(["next"])
            t.apply(["transact", [], item["sec"], 4.0])
            t.root.value
            r = _expect_raise(t, lambda: (t.apply(["next"]), t.root.value), cls)
    elif cls == "duplicate_columns":
        data = R.table("d6")
        data = pd.concat([data, data[[item["col"]]]], axis=1)
        s = bt.Strategy("r", [bt.algos.RunOnce(), bt.algos.SelectAll(), bt.algos.WeighEqually(), bt.algos.Rebalance()])
        try:
            b = bt.Backtest(s, data, progress_bar=False, integer_positions=integer)
            b.run()
            r = ("not_raised", None, True, None)
        except Exception as e:
            r = ("raised", rt.classify(e), True, rt.describe(e))
    elif cls == "duplicate_siblings":
        how = item["how"]
        try:
            if how == "nodes":
                bt.Strategy("r", [], [bt.Security("a"), bt.Security("a")])
            elif how == "strings":
                bt.Strategy("r", [], ["a", "a"])
            elif how == "strategies":
                bt.Strategy("r", [], [bt.Strategy("s", [], ["a"]), bt.Strategy("s", [], ["b"])])
            elif how == "parent_arg":
                p = bt.Strategy("r", [], [bt.Security("a")])
                bt.Security("b")
                bt.Strategy("a", [], [], parent=p) if False else bt.core.StrategyBase("a", parent=p)
            r = ("not_raised", None, True, None)
        except Exception as e:
            r = ("raised", rt.classify(e), True, rt.describe(e))
    elif cls == "zero_base":
        if item["fi"]:
            spec = {"shape": "F1", "integer": integer, "capital": 0.0}
            t = T.Tree(spec)
            for _ in range(item["date"]):
                t.apply(["next"])
            r = _expect_raise(t, lambda: (t.root.adjust(10.0, flow=False), t.root.value), cls)
        else:
            spec = {"shape": item.get("shape", "T1"), "integer": integer, "capital": 0.0 if item.get("shape", "T1") == "T1" else 64.0, "fee": "flat"}
            t = T.Tree(spec)
            for _ in range(item["date"]):
                t.apply(["next"])
            path = [] if spec["shape"] == "T1" else ["s1"]
            r = _expect_raise(t, lambda: (t.apply(["transact", path, "a", 2.0]), t.root.value, t.node(path).price), cls)
    elif cls == "zero_base_after_unwind":
        # a fixed income book that had notional, sells its notional leg but keeps a hedge that
        # still makes P&L: the return is again on a zero base
        spec = {"shape": "F1", "integer": integer, "capital": 0.0}
        t = T.Tree(spec)
        t.apply(["transact", [], "f", 8.0])
        t.apply(["transact", [], "h", 2.0])
        t.root.value
        t.apply(["next"])
        t.apply(["close", [], "f"])
        t.root.value
        r = _expect_raise(t, lambda: (t.apply(["next"]), t.root.value, t.root.price), cls)
    elif cls == "fi_under_mv_parent":
        try:
            child = bt.FixedIncomeStrategy("f", [], children=[bt.FixedIncomeSecurity("a")])
            if item["depth"] == 1:
                root = bt.Strategy("r", [], [child])
            elif item["depth"] == 2:
                root = bt.Strategy("r", [], [bt.Strategy("m", [], [child])])
            else:  # fixed-income root, market-value strategy in the middle
                root = bt.FixedIncomeStrategy("r", [], children=[bt.Strategy("m", [], [child])])
            data = T.frame(T.TABLES["exact"], 4, ["a", "b"])
            if item["via"] == "setup":
                root.setup(data)
            else:
                bt.Backtest(root, data, progress_bar=False).run()
            r = ("not_raised", None, True, None)
        except Exception as e:
            r = ("raised", rt.classify(e), True, rt.describe(e))
    elif cls == "custom_price_without_bidoffer":
        spec = {"shape": item["shape"], "integer": integer, "capital": 64.0}
        if item["shape"] == "T2":
            spec["prefund"] = [[[], "s1", 24.0]]
        t = T.Tree(spec)
        for _ in range(item["date"]):
            t.apply(["next"])
        path = ["a"] if item["shape"] == "T1" else ["s1", "a"]
        r = _expect_raise(t, lambda: (t.apply(["sectransact", path, 2.0, float(item.get("price", 5.0))]), t.root.value), cls)
    else:
        raise KeyError(cls)
    if r[0] != "raised":
        V("illformed_must_raise", {"class": cls, "outcome": "no error was raised"})
    elif not r[2]:
        V("illformed_touched_past_rows", {"class": cls, "error": r[3]}, "rows of earlier dates unchanged")
    return (r[0], viols)


def situations():
    out = []
    for integer in (True, False):
        for shape in ("T1", "T2"):
            for k in (0, 1, 2):
                for op in ("alloc", "reb", "algo"):
                    out.append({"cls": "alloc_nan_price", "shape": shape, "date": k, "op": op, "integer": integer})
                    out.append({"cls": "alloc_zero_price", "shape": shape, "date": k, "op": op, "integer": integer})
                out.append({"cls": "transact_nan_price", "shape": shape, "date": k, "op": "transact", "integer": integer})
            for k in (1, 2, 3):
                for op in ("transact", "alloc"):
                    for fee in (None, "flat"):
                        out.append({"cls": "nan_price_open_position", "shape": shape, "date": k, "op": op, "integer": integer, "fee": fee})
            for k in (0, 1, 2):
                out.append({"cls": "custom_price_without_bidoffer", "shape": shape, "date": k, "integer": integer})
                out.append({"cls": "custom_price_without_bidoffer", "shape": shape, "date": k, "integer": integer, "price": 0.0})
                out.append({"cls": "zero_base", "fi": False, "shape": shape, "date": k, "integer": integer})
        for k in (1, 2, 3):
            for sec in ("c", "ch"):
                out.append({"cls": "nan_coupon_open_position", "date": k, "sec": sec, "integer": integer})
                out.append({"cls": "nan_coupon_open_position", "date": k, "sec": sec, "integer": integer, "when": "opened_on_date"})
        for k in (0, 1, 2):
            out.append({"cls": "zero_base", "fi": True, "date": k, "integer": integer})
        for col in ("a", "b", "c"):
            out.append({"cls": "duplicate_columns", "col": col, "integer": integer})
        out.append({"cls": "zero_base_after_unwind", "integer": integer})
    for how in ("nodes", "strings", "strategies"):
        out.append({"cls": "duplicate_siblings", "how": how})
    for depth in (1, 2, 3):
        for via in ("setup", "backtest"):
            out.append({"cls": "fi_under_mv_parent", "depth": depth, "via": via})
    return out


def bankrupt_run_case(spec):
    """a levered book that is wiped out (flat, nested, three levels): the run and its reports complete"""
    from . import c16

    try:
        b, data = c16.build(spec)
        b.run()
    except Exception as e:
        if rt.guard_id(e) in runcheck.SIZING_GUARDS:
            return ("refused", [], 0)
        return ("died", [{"rule": "run_completes", "expected": "a well-formed run completes (bankruptcy is an outcome, not an error)", "observed": rt.describe(e)}], 0)
    viols = []
    for name, err in reports(b):
        viols.append({"rule": "report_completes", "expected": "%s completes" % name, "observed": err})
    return ("ok", viols[:3], 1 if b.strategy.bankrupt else 0)


def replay(case):
    if case.get("kind") == "bankrupt_run":
        return bankrupt_run_case(case["spec"])[1]
    if case.get("driver") == "run":
        return run_case(case["spec"])[1]
    return illformed_case(case["item"])[1]


def run(ctx):
    ctx.rule = "every backtest of the bounded run family (stock-algo stacks x trees x cost models x position modes) on both builds, and every enumerated ill-formed situation (class x date x depth x operation x position mode); a run is non-trivial if it executed at least one trade, a situation if the guard fired"
    ctx.assumptions += [
        "well-formedness of the family: risk-based weighers behind SelectHasData and a warm-up gate; sub-strategy stacks calendar-gated (DESIGN 4)",
        "a run that dies in a sizing-search guard on a request the brute-force reference can satisfy is the known C05 defect seen from a run",
    ]
    fam = R.family(ctx.tier, ctx.seed)
    # tables that cover only part of the tree: a bid/offer table quoting some of the tickers; a risk table
    # without a number for a child that is declared but flat
    for st in R.stacks("quick")[:4]:
        for tree in ("flat", "flat_eager", "nested"):
            fam.append({"tree": tree, "stack": st, "data": "d12", "alpha": "exact", "integer": tree != "flat_eager", "capital": 1e6, "rng": 0, "fee": None, "spread": 0.5, "spread_cols": ["a", "d"]})
    for g in ("daily", "weekly"):
        fam.append({"tree": "fi_hedge", "stack": {"gate": g}, "fi_weights": {"a": 0.5, "b": 0.5}, "idle_child": True, "data": "d12", "alpha": "exact", "late": False, "integer": False, "capital": 0.0, "rng": 0, "fee": None, "spread": None})
        fam.append({"tree": "fi_hedge", "stack": {"gate": g}, "fi_weights": {"a": 0.75, "b": -0.25}, "bt_name": "run_A", "data": "d12", "alpha": "exact", "late": False, "integer": False, "capital": 0.0, "rng": 0, "fee": None, "spread": None})
    kinds = ["py", "cy"]
    ctx.bounds = {"runs": len(fam), "builds": kinds}
    for kind in kinds:
        ok = died = 0
        for spec, (status, viols, ntr) in ctx.run(kind, MOD, "run_case", fam, chunksize=4):
            ctx.add(states=1, transitions=1, traces_validated_against_impl=1, evaluations=1)
            for v in viols:
                ctx.violation(dict(v, build=kind, module=MOD, case={"driver": "run", "spec": spec}))
            if status == "ok":
                ok += 1
                if ntr:
                    ctx.mark(("run", kind, runcheck._key(spec)))
            else:
                died += 1
        ctx.extra.setdefault("run_family", []).append({"build": kind, "runs": len(fam), "completed": ok, "died": died})
    sits = situations()
    for kind in kinds:
        raised = 0
        for item, (outcome, viols) in ctx.run(kind, MOD, "illformed_case", sits, chunksize=4):
            ctx.add(states=1, transitions=1, traces_validated_against_impl=1, evaluations=1)
            for v in viols:
                ctx.violation(dict(v, build=kind, module=MOD, case={"driver": "illformed", "item": item}))
            if outcome == "raised":
                raised += 1
                ctx.mark(("sit", kind, runcheck._key(item)))
        bspecs = [{"tree": tree, "gate": gate, "lev": [-2.0, 3.0], "path": path, "integer": integer, "fee": fee, "scale": 1.0, "capital": 1024.0} for tree in ("flat", "nested", "nested2", "deep") for gate in ("once", "daily") for path in ([8, 8, 8, 8], [4, 8, 2, 8]) for integer, fee in ((True, None), (False, "propdec"))]
        for spec, (status, viols, nb) in ctx.run(kind, MOD, "bankrupt_run_case", bspecs, chunksize=2):
            ctx.add(states=1 if status == "ok" else 0, transitions=1, traces_validated_against_impl=1, evaluations=1)
            ctx.nontrivial_count += nb
            for v in viols:
                ctx.violation(dict(v, build=kind, module=MOD, case={"kind": "bankrupt_run", "spec": spec}))
        ctx.extra.setdefault("illformed", []).append({"build": kind, "situations": len(sits), "raised": raised})
    ctx.sample({"run_spec": fam[7]})
    ctx.sample({"illformed_situation": sits[3]})
