"""C11 - backtests are isolated, repeatable and never mutate their inputs.

Explorer: `interleavings` - all linear extensions of {construct_i < run_i} for k = 2, 3
backtests built from ONE template; the same script under several interpreter hash seeds;
run() a second time and bt.run()."""
import hashlib
import itertools
import json
import os
import subprocess
import sys

import numpy as np
import pandas as pd

TEMPLATES = ["once", "stateful", "targetvol", "random", "nested", "perm", "momentum", "overtime_nested", "equal_limit", "replay", "dictnode", "lazy_mult"]
CONFIGS = [
    {"data": "d25", "fee": None, "integer": True},
    {"data": "d12", "fee": "propdec", "integer": False},
    {"data": "d25", "fee": "maxflat", "integer": True, "alpha": "decimal"},
    # one ticker multiplies in mid-run: weight limits and dead-price handling come into play late
    {"data": "d25", "fee": None, "integer": False, "jump": ["a", 8.0]},
    {"data": "d12", "fee": None, "integer": False, "jump": ["b", 0.0]},
]


def template(name, idx):
    from .. import rt, runfam as R

    bt = rt.bt()
    A = bt.algos
    D = pd.DateOffset
    log = R.Tap("calls")
    if name == "once":
        return bt.Strategy("t", [log, A.RunOnce(), A.SelectAll(), A.WeighEqually(), A.Rebalance()])
    if name == "stateful":
        ro = A.RebalanceOverTime(3)
        ro.run_always = True
        return bt.Strategy("t", [log, A.RunAfterDays(2), A.RunEveryNPeriods(2, offset=1), A.SelectAll(), A.WeighEqually(), ro])
    if name == "targetvol":
        return bt.Strategy("t", [log, A.RunAfterDays(6), A.RunWeekly(), A.SelectThese(["a", "b", "d"]), A.SelectHasData(lookback=D(days=9), min_count=5), A.WeighEqually(), A.TargetVol(0.2, lookback=D(days=9)), A.Rebalance()])
    if name == "random":
        return bt.Strategy("t", [log, A.RunDaily(), A.SelectAll(), A.SelectRandomly(2), A.WeighRandomly(), A.Rebalance()])
    if name == "random_decl":
        return bt.Strategy("t", [log, A.RunDaily(), A.SelectAll(), A.SelectRandomly(2), A.WeighRandomly(), A.Rebalance()], ["d", "a", "c", "b"])
    if name == "nested":
        s1 = bt.Strategy("s1", [A.RunWeekly(), A.SelectAll(), A.WeighEqually(), A.Rebalance()], ["a", "b"])
        s2 = bt.Strategy("s2", [A.RunMonthly(), A.SelectAll(), A.SelectMomentum(1, lookback=D(days=4)), A.WeighEqually(), A.Rebalance()], ["b", "d"])
        return bt.Strategy("t", [log, A.RunDaily(), A.WeighSpecified(s1=0.5, s2=0.25), A.Rebalance()], [s1, s2])
    if name == "perm":
        return bt.Strategy("t", [log, A.ClosePositionsAfterDates("closes"), A.RunDaily(), A.SelectThese(["a", "b", "d"]), A.SelectActive(), A.WeighEqually(), A.Rebalance()], [bt.Security("a"), bt.Security("b"), bt.Security("d")])
    if name == "perm_random":
        return bt.Strategy("t", [log, A.ClosePositionsAfterDates("closes"), A.RunDaily(), A.SelectAll(), A.SelectActive(), A.SelectRandomly(2), A.WeighRandomly(), A.Rebalance()], [bt.Security("a"), bt.Security("b"), bt.Security("c"), bt.Security("d")])
    if name == "lazy_mult":
        # a lazily added security with a contract size of its own: every backtest built from the template gets its own
        return bt.Strategy("t", [log, A.RunWeekly(), A.SelectThese(["a", "b"]), A.WeighSpecified(a=0.5, b=0.25), A.Rebalance()], [bt.Security("a", multiplier=2, lazy_add=True), "b"])
    if name == "dictnode":
        # one node object first handed to another strategy under a different key: it stays the caller's 'a'
        node = bt.Security("a")
        bt.Strategy("first", [A.RunOnce(), A.SelectAll(), A.WeighEqually(), A.Rebalance()], {"b": node})
        if node.name != "a":
            raise RuntimeError("building a strategy renamed the caller's node %r -> %r" % ("a", node.name))
        return bt.Strategy("t", [log, A.RunDaily(), A.SelectAll(), A.WeighEqually(), A.Rebalance()], [node, bt.Security("d")])
    if name == "replay":
        return bt.Strategy("t", [log, A.ReplayTransactions("tx")], [bt.Security("a"), bt.Security("b")])
    if name == "equal_wide_limit":
        # the limit is wider than the equal weight: nothing is clamped until a price jumps
        return bt.Strategy("t", [log, A.RunDaily(), A.SelectThese(["a", "b", "d"]), A.WeighEqually(), A.LimitDeltas(0.4), A.Rebalance()])
    if name == "equal_closedead":
        return bt.Strategy("t", [log, A.RunDaily(), A.SelectThese(["a", "b", "d"]), A.WeighEqually(), A.CloseDead(), A.Rebalance()])
    if name == "equal_limit":
        return bt.Strategy("t", [log, A.RunDaily(), A.SelectThese(["a", "b", "d"]), A.WeighEqually(), A.LimitDeltas(0.125), A.Rebalance()])
    if name == "momentum":
        return bt.Strategy("t", [log, A.RunWeekly(), A.SelectAll(), A.SelectMomentum(2, lookback=D(days=4)), A.WeighInvVol(lookback=D(days=20)), A.LimitDeltas(0.5), A.Rebalance()])
    if name == "overtime_nested":
        ro = A.RebalanceOverTime(2)
        ro.run_always = True
        s1 = bt.Strategy("s1", [A.RunWeekly(), A.SelectAll(), A.WeighEqually(), ro], ["a", "d"])
        return bt.Strategy("t", [log, A.RunOnce(), A.WeighSpecified(s1=0.75), A.Rebalance()], [s1])
    raise KeyError(name)


def inputs(cfg):
    from .. import runfam as R, tree as T

    data = R.table(cfg["data"], cfg.get("alpha", "exact"))
    if cfg.get("jump"):
        col, f = cfg["jump"]
        v = data[col].values.copy()
        v[len(v) // 2:] = v[len(v) // 2:] * f
        data[col] = v
    idx = data.index
    closes = pd.DataFrame({"date": [idx[len(idx) // 2], idx[3]]}, index=["a", "d"])
    # a table on the data's own index (Backtest re-frames such tables with the synthetic first row:
    # it must do so on its own copy of the dict)
    sig = pd.DataFrame(True, index=idx, columns=pd.Index(list(data.columns), name="isin"))
    data.columns.name = "ticker"
    ad = {"closes": closes, "sig": sig}
    # a blotter grouped by security (not sorted by time), on its own index: handed through by reference
    rows = [(idx[i], c, q, float(data[c].iloc[i]) + 0.25) for c, qs in (("a", (4.0, -2.0, 6.0)), ("b", (2.0, 2.0, -4.0))) for i, q in zip((7, 2, 4) if c == "a" else (1, 6, 3), qs)]
    ad["tx"] = pd.DataFrame({"quantity": [r[2] for r in rows], "price": [r[3] for r in rows]}, index=pd.MultiIndex.from_tuples([(r[0], r[1]) for r in rows], names=["Date", "Security"]))
    ad["bidoffer"] = pd.DataFrame(0.0, index=idx, columns=data.columns)
    return data, ad


def frames_digest(data, ad):
    h = hashlib.sha1()
    h.update(repr(sorted(ad)).encode())
    for name, fr in [("data", data)] + sorted(ad.items()):
        h.update(name.encode())
        h.update(repr(list(fr.columns)).encode())
        h.update(repr((fr.columns.names, fr.index.names)).encode())  # axis labels are the caller's too
        h.update(repr([str(x) for x in fr.index]).encode())
        h.update(repr(fr.to_numpy().tolist()).encode())
    return h.hexdigest()


def result_digest(b):
    from .. import runfam as R

    h = R.run_histories(b)
    return hashlib.sha1(json.dumps(h, sort_keys=True, default=str).encode()).hexdigest(), h


def make_backtest(tpl, cfg, data, ad):
    from .. import rt, tree as T

    bt = rt.bt()
    return bt.Backtest(tpl, data, commissions=T.fee_fn(cfg.get("fee")), integer_positions=cfg["integer"], progress_bar=False, additional_data=ad)


def solo(tname, cfg, seed):
    """the backtest constructed from a fresh template and run alone"""
    from .. import rt

    if tname == "bench":
        # bt.backtest.benchmark_random: the random portfolios of a seeded run
        import contextlib, io

        bt = rt.bt()
        A = bt.algos
        data, ad = inputs(cfg)
        base = make_backtest(template("once", data.index), cfg, data, ad)
        rs = bt.Strategy("rnd", [A.RunWeekly(), A.SelectAll(), A.SelectRandomly(2), A.WeighRandomly(), A.Rebalance()])
        rt.seed_rng(seed)
        with contextlib.redirect_stderr(io.StringIO()), contextlib.redirect_stdout(io.StringIO()):
            res = bt.backtest.benchmark_random(base, rs, nsim=2)
        h = hashlib.sha1()
        for name in sorted(res.backtests):
            h.update(result_digest(res.backtests[name])[0].encode())
        return h.hexdigest()
    data, ad = inputs(cfg)
    tpl = template(tname, data.index)
    b = make_backtest(tpl, cfg, data, ad)
    rt.seed_rng(seed)
    b.run()
    return result_digest(b)[0]


def schedule_case(item):
    from .. import rt, runfam as R, tree as T

    tname, cfgs, order = item[0], item[1], item[2]
    shared_inputs = bool(item[3]) if len(item) > 3 else False
    viols = []
    k = len(cfgs)
    try:
        solos = [solo(tname, cfgs[i], 100 + i) for i in range(k)]
        ins = [inputs(c) for c in cfgs]
        if shared_inputs:
            # the same frames handed to every backtest
            ins = [ins[0]] * k
            solos = [solo(tname, cfgs[0], 100 + i) for i in range(k)]
            cfgs = [cfgs[0]] * k
        tpl = template(tname, ins[0][0].index)
        key0 = T.canon_key(tpl)
        dig0 = [frames_digest(d, a) for d, a in ins]
        bts = [None] * k
        for ev, i in order:
            if ev == "C":
                bts[i] = make_backtest(tpl, cfgs[i], ins[i][0], ins[i][1])
            else:
                rt.seed_rng(100 + i)
                bts[i].run()
            if T.canon_key(tpl) != key0:
                viols.append({"rule": "template_mutated", "expected": "template unchanged", "observed": {"after_event": [ev, i]}})
                key0 = T.canon_key(tpl)
            for j, (d, a) in enumerate(ins):
                if frames_digest(d, a) != dig0[j]:
                    viols.append({"rule": "input_frames_mutated", "expected": "data frames unchanged", "observed": {"after_event": [ev, i], "frames_of_backtest": j}})
                    dig0[j] = frames_digest(d, a)
        for i in range(k):
            got = result_digest(bts[i])[0]
            if got != solos[i]:
                viols.append({"rule": "not_isolated", "expected": {"backtest": i, "equals": "the same backtest run alone"}, "observed": "histories differ"})
        # asking a finished backtest to run again does not re-run it
        b = bts[0]
        ncalls = len(R.taps(b.strategy, "calls"))
        d1 = result_digest(b)[0]
        b.run()
        import contextlib, io

        with contextlib.redirect_stderr(io.StringIO()):
            rt.bt().run(b)
        if len(R.taps(b.strategy, "calls")) != ncalls or result_digest(b)[0] != d1:
            viols.append({"rule": "finished_backtest_ran_again", "expected": {"algo_calls": ncalls}, "observed": {"algo_calls": len(R.taps(b.strategy, "calls"))}})
    except Exception as e:
        from .. import runcheck

        if rt.guard_id(e) in runcheck.SIZING_GUARDS:
            return ("refused", [], 0)  # the known sizing-search guards (C05), nothing to do with isolation
        return ("crash", viols + [{"rule": "schedule_raises", "expected": "every backtest of the schedule completes as it does alone", "observed": rt.describe(e)}], 0)
    return ("ok", viols[:4], 1)


def hashseed_case(item):
    """the same seeded backtest in fresh interpreters with different string hash seeds"""
    from .. import rt

    tname, ci, seeds = item
    outs = {}
    for hs in seeds:
        env = dict(os.environ, PYTHONHASHSEED=str(hs), MPLBACKEND="Agg", PYTHONWARNINGS="ignore")
        r = subprocess.run(["/venv/bin/python", "-m", "btmc.props.c11", rt._state["dir"], rt.kind(), tname, str(ci)], capture_output=True, text=True, env=env, cwd=os.path.dirname(os.path.dirname(os.path.dirname(os.path.abspath(__file__)))))
        if r.returncode != 0:
            return ("crash", [{"rule": "crash", "observed": (r.stderr or r.stdout)[-300:]}], 0)
        outs[hs] = r.stdout.strip().splitlines()[-1]
    viols = []
    if len(set(outs.values())) != 1:
        viols.append({"rule": "depends_on_hash_seed", "expected": "identical histories in every process", "observed": outs})
    return ("ok", viols, len(seeds))


def history_case(item):
    """a backtest in a process that has already run other backtests (other data, same template and
    library) equals the same backtest in a pristine process: nothing is left behind in the library"""
    from .. import rt

    tname, ci, pre = item
    outs = []
    for history in ([], pre):
        env = dict(os.environ, PYTHONHASHSEED="0", MPLBACKEND="Agg", PYTHONWARNINGS="ignore")
        r = subprocess.run(["/venv/bin/python", "-m", "btmc.props.c11", rt._state["dir"], rt.kind(), tname, str(ci), json.dumps(history)], capture_output=True, text=True, env=env, cwd=os.path.dirname(os.path.dirname(os.path.dirname(os.path.abspath(__file__)))))
        if r.returncode != 0:
            return ("crash", [{"rule": "crash", "observed": (r.stderr or r.stdout)[-300:]}], 0)
        outs.append(r.stdout.strip().splitlines()[-1])
    viols = []
    if outs[0] != outs[1]:
        viols.append({"rule": "depends_on_process_history", "expected": {"equals": "the same backtest in a pristine process", "earlier_backtests": pre}, "observed": "histories differ"})
    return ("ok", viols, 2)


def linear_extensions(k):
    evs = [("C", i) for i in range(k)] + [("R", i) for i in range(k)]
    out = []
    for perm in itertools.permutations(evs):
        pos = {e: n for n, e in enumerate(perm)}
        if all(pos[("C", i)] < pos[("R", i)] for i in range(k)):
            out.append([list(e) for e in perm])
    return out


def replay(case):
    if case["kind"] == "hashseed":
        return hashseed_case(tuple(case["where"]))[1]
    if case["kind"] == "history":
        return history_case(tuple(case["where"]))[1]
    w = case["where"]
    return schedule_case((w[0], w[1], [tuple(e) for e in w[2]], w[3] if len(w) > 3 else False))[1]


def run(ctx):
    ctx.rule = "every linear extension of {construct_i < run_i} for k=2 (6 orders) and k=3 (90 orders) backtests built from one template, over templates with stateful, in-place-mutating, perm-using and seeded random algos x same / different data, commission and position mode; the same backtest under interpreter hash seeds; the same backtest in a pristine process and in one that has run other backtests (a price jump, a dead price, another cost model) before; a schedule is non-trivial if all its backtests completed"
    ctx.assumptions += [
        "random algos: the RNG is seeded per run event (the seed is part of the input)",
        "isolation oracle: SHA-1 over every recorded series of every node equals that of the same backtest built from a fresh template and run alone",
        "template state: SHA-1 over the raw instance state of the template tree including every algo object",
    ]
    kinds = ["py"] if ctx.tier == "quick" else ["py", "cy"]
    if ctx.tier == "quick":
        k0 = ctx.seed % len(TEMPLATES)
        tn = sorted(set([TEMPLATES[k0], TEMPLATES[(k0 + 3) % len(TEMPLATES)], "perm", "targetvol", "random", "equal_limit", "replay", "dictnode", "lazy_mult"]))
        seeds = [0, 1, 2, 3]
    else:
        tn = TEMPLATES
        seeds = list(range(8))
    items = []
    for t in tn:
        for order in linear_extensions(2):
            items.append((t, [CONFIGS[0], CONFIGS[1]], order, False))
            items.append((t, [CONFIGS[0], CONFIGS[0]], order, True))
        if ctx.tier != "quick" or t in ("perm", "stateful", "targetvol"):
            for order in linear_extensions(3):
                items.append((t, [CONFIGS[0], CONFIGS[1], CONFIGS[2]], order, False))
                if ctx.tier != "quick":
                    items.append((t, [CONFIGS[0]] * 3, order, True))
    hs = [(t, ci, seeds) for t in (tn + ["random_decl", "perm_random", "bench"]) for ci in (0, 1)]
    hist = [(t, ci, [[t, 3], [t, 4], [t, 1]]) for t in (TEMPLATES + ["equal_wide_limit", "equal_closedead"] if ctx.tier != "quick" else sorted(set(tn + ["equal_wide_limit", "equal_closedead", "momentum"]))) for ci in ((0,) if ctx.tier == "quick" else (0, 1))]
    ctx.bounds = {"process_history_cases": len(hist), "templates": tn, "schedules": len(items), "hash_seed_cases": len(hs), "hash_seeds": seeds, "builds": kinds}
    for kind in kinds:
        for item, (status, viols, n) in ctx.run(kind, "btmc.props.c11", "schedule_case", items, chunksize=2):
            ctx.add(transitions=2 * len(item[1]), traces_validated_against_impl=len(item[1]), evaluations=1)
            if status == "ok":
                ctx.add(states=1)
                ctx.mark((kind, item[0], json.dumps(item[2]), item[3], len(item[1])))
            for v in viols:
                ctx.violation(dict(v, build=kind, module="btmc.props.c11", case={"kind": "schedule", "where": [item[0], item[1], item[2], item[3]]}))
        for item, (status, viols, n) in ctx.run(kind, "btmc.props.c11", "hashseed_case", hs, chunksize=1):
            ctx.add(states=1, transitions=n, traces_validated_against_impl=n, evaluations=n)
            if status == "ok":
                ctx.mark((kind, "hs", item[0], item[1]))
            for v in viols:
                ctx.violation(dict(v, build=kind, module="btmc.props.c11", case={"kind": "hashseed", "where": list(item)}))
        for item, (status, viols, n) in ctx.run(kind, "btmc.props.c11", "history_case", hist, chunksize=1):
            ctx.add(states=1, transitions=n + len(item[2]), traces_validated_against_impl=n, evaluations=1)
            if status == "ok":
                ctx.mark((kind, "hist", item[0], item[1]))
            for v in viols:
                ctx.violation(dict(v, build=kind, module="btmc.props.c11", case={"kind": "history", "where": list(item)}))
    ctx.sample({"template": tn[0], "configs": [CONFIGS[0], CONFIGS[1]], "order": items[3][2]})


def _cli():
    """child process of hashseed_case: print the digest of one seeded backtest"""
    bdir, kind, tname, ci = sys.argv[1], sys.argv[2], sys.argv[3], int(sys.argv[4])
    from .. import rt

    rt.init(bdir, kind)
    for t2, c2 in json.loads(sys.argv[5]) if len(sys.argv) > 5 else []:
        try:
            solo(t2, CONFIGS[c2], 3)
        except Exception:
            pass  # an earlier backtest that dies is history all the same
    print(solo(tname, CONFIGS[ci], 7))


if __name__ == "__main__":
    _cli()
