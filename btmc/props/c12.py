"""C12 - calendar and counting schedulers fire exactly on their boundaries.

Explorer: `product` - every subset (size >= 2) of hand-picked 8-timestamp windows as the data
index x 5 calendar algos x 8 flag settings x every date (+ synthetic row, None, off-index);
counters over all n / offset; and the schedulers inside real backtests."""
import datetime
import itertools
import json

import numpy as np
import pandas as pd

from .. import rt, runfam as R

MOD = "btmc.props.c12"

WINDOWS = {
    # Mon 2018-12-31 and Tue 2019-01-01 share ISO week 2019-W01
    "newyear_2018_19": ["2018-12-27", "2018-12-28", "2018-12-31", "2019-01-01", "2019-01-02", "2019-01-04", "2019-01-07", "2019-01-08"],
    # ISO week 53 of 2020 runs Mon 2020-12-28 .. Sun 2021-01-03
    "iso_week_53": ["2020-12-24", "2020-12-28", "2020-12-31", "2021-01-01", "2021-01-03", "2021-01-04", "2021-01-05", "2021-01-11"],
    # leap day, quarter end, intraday stamps
    "leap_quarter_intraday": ["2020-02-28 09:30", "2020-02-28 15:30", "2020-02-29 10:00", "2020-03-02 09:30", "2020-03-31 09:30", "2020-03-31 16:00", "2020-04-01 09:30", "2020-04-01 15:00"],
    # sparse multi-year index
    "sparse_years": ["2009-12-31", "2010-01-04", "2010-01-05", "2010-03-31", "2010-04-01", "2011-01-03", "2011-12-30", "2013-01-02"],
    # plain mid-month days
    "plain_week": ["2021-06-14", "2021-06-15", "2021-06-17", "2021-06-18", "2021-06-21", "2021-06-22", "2021-06-23", "2021-06-28"],
    # long histories: business days of the winter 1968/69 (before the Unix epoch)
    "pre_epoch": ["1968-12-27", "1968-12-30", "1968-12-31", "1969-01-01", "1969-01-02", "1969-01-06", "1969-01-07", "1969-01-13"],
    # daily bars stamped at local midnight in a zone ahead of UTC (the calendar is the data's own)
    "tokyo_midnight": ["2020-01-30 00:00+09:00", "2020-01-31 00:00+09:00", "2020-02-01 00:00+09:00", "2020-02-03 00:00+09:00", "2020-03-31 00:00+09:00", "2020-04-01 00:00+09:00", "2020-12-31 00:00+09:00", "2021-01-01 00:00+09:00"],
    # hourly bars: overnight gap below 24h, weekend, month end
    "hourly": ["2021-04-29 09:30", "2021-04-29 15:30", "2021-04-30 09:30", "2021-04-30 15:30", "2021-05-03 09:30", "2021-05-03 10:30", "2021-05-04 09:30", "2021-05-04 15:30"],
}

ALGOS = ["RunDaily", "RunWeekly", "RunMonthly", "RunQuarterly", "RunYearly"]


def key(name, ts):
    """independent calendar arithmetic on plain datetime"""
    d = datetime.datetime(ts.year, ts.month, ts.day, ts.hour, ts.minute)
    if name == "RunDaily":
        return (d.year, d.month, d.day)
    if name == "RunWeekly":
        iso = d.isocalendar()
        return (iso[0], iso[1])
    if name == "RunMonthly":
        return (d.year, d.month)
    if name == "RunQuarterly":
        return (d.year, (d.month - 1) // 3)
    if name == "RunYearly":
        return (d.year,)
    raise KeyError(name)


class Target(object):
    def __init__(self, index):
        self.data = pd.DataFrame(index=index, columns=["x"], data=0.0)
        self.now = None
        self.temp = {}
        self.perm = {}


def expected(name, index, i, first, eop, last):
    n = len(index)
    if i == 0:
        return False
    if i == 1:
        return bool(first)
    if i == n - 1:
        return bool(last)
    other = index[i + 1] if eop else index[i - 1]
    return key(name, index[i]) != key(name, other)


def window_case(item):
    wname, subset_bits = item[0], item[1]
    max_skips = item[2] if len(item) > 2 else 1
    A = rt.bt().algos
    stamps = [pd.Timestamp(s) for s in WINDOWS[wname]]
    viols = []
    ncalls = 0
    fired_patterns = set()
    for bits in subset_bits:
        dates = [stamps[k] for k in range(8) if bits >> k & 1]
        index = pd.DatetimeIndex([dates[0] - pd.DateOffset(days=1)] + dates)
        for name in ALGOS:
            for first, eop, last in itertools.product((True, False), repeat=3):
                algo = getattr(A, name)(run_on_first_date=first, run_on_end_of_period=eop, run_on_last_date=last)
                t = Target(index)
                pattern = []
                for i in range(len(index)):
                    t.now = index[i]
                    got = bool(algo(t))
                    exp = expected(name, index, i, first, eop, last)
                    ncalls += 1
                    pattern.append(got)
                    if got != exp:
                        sig = None
                        if name == "RunWeekly" and 1 < i < len(index) - 1:
                            sig = "weekly|%s|%s|%s" % (index[i], index[i + 1] if eop else index[i - 1], got)
                        viols.append({"rule": "calendar_boundary", "expected": {"algo": name, "flags": [first, eop, last], "index": [str(x) for x in index], "date": str(index[i]), "fires": exp}, "observed": got, "sig": sig, "where": {"window": wname, "bits": bits, "algo": name, "flags": [first, eop, last], "i": i}})
                # never on None or a date outside the data
                t.now = None
                if algo(t):
                    viols.append({"rule": "fires_on_none", "expected": False, "observed": True, "where": {"window": wname, "bits": bits, "algo": name, "flags": [first, eop, last], "i": None}})
                t.now = index[-1] + pd.DateOffset(days=3)
                if algo(t):
                    viols.append({"rule": "fires_off_index", "expected": False, "observed": True, "where": {"window": wname, "bits": bits, "algo": name, "flags": [first, eop, last], "i": "off"}})
                ncalls += 2
                fired_patterns.add((name, first, eop, last, tuple(pattern)))
                # deviation from the default call schedule: the scheduler is NOT evaluated on
                # every date (it sits behind an intermittent gate); what it answers on the dates
                # it is asked about depends on the data index only
                n = len(index)
                skipsets = [(k,) for k in range(n)]
                if max_skips >= 2:
                    skipsets += list(itertools.combinations(range(n), 2))
                for skip in skipsets:
                    algo2 = getattr(A, name)(run_on_first_date=first, run_on_end_of_period=eop, run_on_last_date=last)
                    for i in range(n):
                        if i in skip:
                            continue
                        t.now = index[i]
                        got = bool(algo2(t))
                        ncalls += 1
                        exp = expected(name, index, i, first, eop, last)
                        if got != exp:
                            viols.append({"rule": "calendar_boundary_skipped_calls", "expected": {"algo": name, "flags": [first, eop, last], "index": [str(x) for x in index], "not_called_on": [str(index[k]) for k in skip], "date": str(index[i]), "fires": exp}, "observed": got, "where": {"window": wname, "bits": bits, "algo": name, "flags": [first, eop, last], "i": i, "skip": list(skip)}})
    return (ncalls, len(fired_patterns), viols[:40], len(viols))


def counters_case(item):
    kind = item["kind"]
    A = rt.bt().algos
    idx = pd.DatetimeIndex(["2019-12-30", "2019-12-31", "2020-01-02", "2020-01-03", "2020-01-06", "2020-01-07", "2020-01-08", "2020-01-09"])
    t = Target(idx)
    viols = []
    n = 0

    def V(exp, got, extra):
        viols.append({"rule": "counter_" + kind, "expected": dict(extra, fires=exp), "observed": got, "where": item})

    rep = item.get("repeat", 1)
    if kind == "RunOnce":
        a = A.RunOnce()
        fired = 0
        for i, d in enumerate(idx):
            for r in range(rep):
                t.now = d
                got = bool(a(t))
                n += 1
                exp = i == 0 and r == 0
                if got != exp:
                    V(exp, got, {"date": str(d), "call": r})
    elif kind == "RunOnDate":
        ds = item["dates"]
        a = A.RunOnDate(*ds)
        want = set(pd.Timestamp(x) for x in ds)
        for d in list(idx) + [pd.Timestamp("2021-01-01")]:
            for r in range(rep):
                t.now = d
                got = bool(a(t))
                n += 1
                if got != (d in want):
                    V(d in want, got, {"date": str(d)})
    elif kind == "RunAfterDate":
        a = A.RunAfterDate(item["date"])
        ref = pd.Timestamp(item["date"])
        if item.get("intraday"):
            idx = pd.DatetimeIndex([pd.Timestamp(d) + pd.Timedelta(hours=h) for d in ("2019-12-30", "2019-12-31", "2020-01-02") for h in (10, 13, 16)])
            t = Target(idx)
        for d in idx:
            t.now = d
            got = bool(a(t))
            n += 1
            if got != (d > ref):
                V(d > ref, got, {"date": str(d)})
    elif kind == "RunAfterDays":
        a = A.RunAfterDays(item["n"])
        for i, d in enumerate(idx):
            t.now = d
            got = bool(a(t))
            n += 1
            if got != (i >= item["n"]):
                V(i >= item["n"], got, {"date": str(d), "ordinal": i})
    elif kind == "RunEveryNPeriods":
        nn, off = item["n"], item["offset"]
        a = A.RunEveryNPeriods(nn, offset=off)
        for i, d in enumerate(idx):
            for r in range(rep):
                t.now = d
                got = bool(a(t))
                n += 1
                exp = (r == 0) and i >= off and ((i - off) % nn == 0)
                if got != exp:
                    V(exp, got, {"date": str(d), "ordinal": i, "call": r})
    return (n, 1, viols, len(viols))


def backtest_case(item):
    """the scheduler inside a real backtest: the dates on which the stack got past it"""
    bt = rt.bt()
    A = bt.algos
    name, flags, dname, nested = item
    data = R.table(dname, "exact", late=False)
    first, eop, last = flags
    tap = R.Tap("s")
    algo = getattr(A, name)(run_on_first_date=first, run_on_end_of_period=eop, run_on_last_date=last)
    inner = bt.Strategy("s", [algo, tap, A.SelectAll(), A.WeighEqually(), A.Rebalance()])
    if nested == "halting_parent":
        # the parent's own stack stops on most dates: its sub-strategies are run on every date all the same
        root = bt.Strategy("r", [A.RunMonthly(), A.WeighSpecified(s=0.5), A.Rebalance()], [inner])
    elif nested:
        root = bt.Strategy("r", [A.RunDaily(), A.WeighSpecified(s=0.5), A.Rebalance()], [inner])
    else:
        root = inner
    b = bt.Backtest(root, data, progress_bar=False)
    b.run()
    node = b.strategy["s"] if nested else b.strategy
    got = R.taps(node, "s")
    index = pd.DatetimeIndex([data.index[0] - pd.DateOffset(days=1)]).append(data.index)  # the driver's own
    exp = [str(index[i]) for i in range(1, len(index)) if expected(name, index, i, first, eop, last)]
    viols = []
    if got != exp:
        sig = None
        if name == "RunWeekly":
            sig = "weekly-backtest|%s|%s" % (dname, sorted(set(got) ^ set(exp)))
        viols.append({"rule": "scheduler_in_backtest", "expected": {"algo": name, "flags": list(flags), "dates": exp}, "observed": got, "sig": sig, "where": list(item)})
    return (len(index), 1, viols, len(viols))


def _member(spec):
    A = rt.bt().algos
    k = spec[0]
    if k in ALGOS:
        return getattr(A, k)()
    if k == "RunOnce":
        return A.RunOnce()
    if k == "RunAfterDays":
        return A.RunAfterDays(spec[1])
    if k == "RunEveryNPeriods":
        return A.RunEveryNPeriods(spec[1], offset=spec[2])
    if k == "RunOnDate":
        return A.RunOnDate(*spec[1])
    if k == "RunAfterDate":
        return A.RunAfterDate(spec[1])
    raise KeyError(k)


def _member_fires(spec, index, i):
    """index = synthetic row + the data's own dates; i >= 1 is the position of a real date"""
    k = spec[0]
    j = i - 1  # ordinal among the dates the stack is run on
    if k in ALGOS:
        return expected(k, index, i, True, False, False) if k != "RunDaily" else expected(k, index, i, True, False, False)
    if k == "RunOnce":
        return j == 0
    if k == "RunAfterDays":
        return j >= spec[1]
    if k == "RunEveryNPeriods":
        return j >= spec[2] and (j - spec[2]) % spec[1] == 0
    if k == "RunOnDate":
        return index[i] in set(pd.Timestamp(x) for x in spec[1])
    if k == "RunAfterDate":
        return index[i] > pd.Timestamp(spec[1])
    raise KeyError(k)


def combo_case(item):
    """schedulers combined with Or inside a real backtest, on data whose first row may be empty: the
    stack gets past the Or exactly on the union of the dates each member describes (a counting
    member counts every date of the data, whoever else fired)"""
    bt = rt.bt()
    A = bt.algos
    members, dvariant, wrap = item
    data = R.table("d25", "exact", late=False)
    if dvariant == "nan_first":
        data.iloc[0, :] = float("nan")
    elif dvariant == "nan_partial":
        data.iloc[0, 1:] = float("nan")
    tap = R.Tap("s")
    algos = [_member(m) for m in members]
    gate = A.Or(algos) if wrap == "or" else algos[0]
    s = bt.Strategy("s", [gate, tap])
    b = bt.Backtest(s, data, progress_bar=False)
    b.run()
    got = R.taps(b.strategy, "s")
    index = pd.DatetimeIndex([data.index[0] - pd.DateOffset(days=1)]).append(data.index)
    exp = [str(index[i]) for i in range(1, len(index)) if any(_member_fires(m, index, i) for m in (members if wrap == "or" else members[:1]))]
    viols = []
    if got != exp:
        viols.append({"rule": "scheduler_combination_in_backtest", "expected": {"members": [list(m) for m in members], "data": dvariant, "dates": exp}, "observed": got, "where": [[list(m) for m in members], dvariant, wrap]})
    return (len(index), 1, viols, len(viols))


def random_benchmark_case(item):
    """bt.backtest.benchmark_random re-runs a strategy on the first backtest's data: every scheduler
    of the random strategies fires on the dates its parameters describe (all inside the data)"""
    bt = rt.bt()
    A = bt.algos
    member, nsim = item
    data = R.table("d25", "exact", late=False)
    base = bt.Backtest(bt.Strategy("base", [A.RunMonthly(), A.SelectAll(), A.WeighEqually(), A.Rebalance()]), data, progress_bar=False)
    tap = R.Tap("s")
    rs = bt.Strategy("rand", [_member(member), tap, A.SelectRandomly(2), A.WeighRandomly(), A.Rebalance()])
    rt.seed_rng(3)
    import contextlib, io

    with contextlib.redirect_stderr(io.StringIO()), contextlib.redirect_stdout(io.StringIO()):
        res = bt.backtest.benchmark_random(base, rs, nsim=nsim)
    index = pd.DatetimeIndex([data.index[0] - pd.DateOffset(days=1)]).append(data.index)
    exp = [str(index[i]) for i in range(1, len(index)) if _member_fires(member, index, i)]
    viols = []
    n = 0
    for name, b in res.backtests.items():
        if name == "base":
            continue
        n += 1
        got = R.taps(b.strategy, "s")
        if got != exp:
            viols.append({"rule": "scheduler_in_random_benchmark", "expected": {"member": list(member), "dates": exp}, "observed": got, "where": [list(member), nsim]})
            break
    return (len(index) * n, 1, viols, len(viols))


def replay(case):
    k = case["kind"]
    if k == "randbench":
        w = case["where"]
        return random_benchmark_case((tuple(tuple(x) if isinstance(x, list) else x for x in w[0]), w[1]))[2]
    if k == "window":
        w = case["where"]
        out = window_case((w["window"], [w["bits"]]))[2]
        return [v for v in out if v["where"]["algo"] == w["algo"] and v["where"]["flags"] == w["flags"] and v["where"]["i"] == w["i"] and v["where"].get("skip") == w.get("skip")]
    if k == "counter":
        return counters_case(case["where"])[2]
    if k == "combo":
        w = case["where"]
        return combo_case(([tuple(tuple(x) if isinstance(x, list) else x for x in m) for m in w[0]], w[1], w[2]))[2]
    return backtest_case(tuple(case["where"][:2]) + (case["where"][2], case["where"][3]))[2]


def run(ctx):
    ctx.rule = "every subset (size >= 2) of each 8-timestamp window as the data index x 5 calendar schedulers x 8 flag settings x every date of the index (+ synthetic row, None, off-index); counters x all parameters; schedulers inside real backtests (flat, under an always-running and under a halting parent, inside benchmark_random), alone and combined with Or (stateless x counting members, both orders) on data whose first row is complete, partly or wholly empty; a case is non-trivial if it is a distinct (scheduler, flags, firing pattern)"
    ctx.assumptions += [
        "first / last data date are decided by their flags alone (reading fixed by the pinned, passing test_run_period)",
        "week = ISO (year, week); quarter = (month-1)//3; oracle uses datetime only",
        "RunAfterDays is driven once per date",
    ]
    names = sorted(WINDOWS)
    use = names
    subsets = [b for b in range(256) if bin(b).count("1") >= 2]
    items = []
    for w in use:
        for c in range(0, len(subsets), 16):
            items.append((w, subsets[c : c + 16], 1 if ctx.tier == "quick" else 2))
    kind = "py"
    calls = 0
    for item, (n, npat, viols, nv) in ctx.run(kind, MOD, "window_case", items, chunksize=2):
        calls += n
        ctx.nontrivial_count += npat
        for v in viols:
            ctx.violation(dict(v, build=kind, module=MOD, case={"kind": "window", "where": v.get("where")}))
    ctx.add(states=len(items) * 16, transitions=calls, traces_validated_against_impl=calls, evaluations=calls)
    citems = []
    nmax = 4 if ctx.tier == "quick" else 6
    for rep in (1, 2):
        citems.append({"kind": "RunOnce", "repeat": rep})
        for n_ in range(1, nmax + 1):
            for off in range(0, 2 * n_ + 2):
                citems.append({"kind": "RunEveryNPeriods", "n": n_, "offset": off, "repeat": rep})
        for ds in (["2019-12-31"], ["2020-01-02", "2020-01-07"], ["2020-01-01"], ["2019-12-30", "2020-01-09", "2022-01-01"], ["2020-01-07", "2019-12-31", "2020-01-03"], ["2020-01-08", "2020-01-08", "2019-12-30"]):
            citems.append({"kind": "RunOnDate", "dates": ds, "repeat": rep})
    for d in ("2019-12-29", "2019-12-30", "2020-01-01", "2020-01-02", "2020-01-09", "2020-02-01"):
        citems.append({"kind": "RunAfterDate", "date": d})
    for d in ("2019-12-31 13:00", "2019-12-31 16:00", "2019-12-31", "2019-12-30 11:30", "2020-01-02 16:00"):
        citems.append({"kind": "RunAfterDate", "date": d, "intraday": True})
    for n_ in range(0, nmax + 2):
        citems.append({"kind": "RunAfterDays", "n": n_})
    for item, (n, npat, viols, nv) in ctx.run(kind, MOD, "counters_case", citems, chunksize=4):
        ctx.add(states=1, transitions=n, traces_validated_against_impl=n, evaluations=n)
        ctx.nontrivial_count += 1
        for v in viols:
            ctx.violation(dict(v, build=kind, module=MOD, case={"kind": "counter", "where": item}))
    bitems = []
    for name in ALGOS:
        for flags in itertools.product((True, False), repeat=3):
            for dname in (("d25", "d6") if ctx.tier == "quick" else ("d25", "d6", "d12")):
                for nested in (False, True, "halting_parent"):
                    bitems.append((name, flags, dname, nested))
    kinds = ["py"] if ctx.tier == "quick" else ["py", "cy"]
    for kd in kinds:
        for item, (n, npat, viols, nv) in ctx.run(kd, MOD, "backtest_case", bitems, chunksize=4):
            ctx.add(states=1, transitions=n, traces_validated_against_impl=1, evaluations=1)
            ctx.mark(("bt", kd) + tuple(map(str, item)))
            for v in viols:
                ctx.violation(dict(v, build=kd, module=MOD, case={"kind": "backtest", "where": list(item)}))
    stateless = [("RunWeekly",), ("RunMonthly",), ("RunOnDate", ("2019-12-18", "2020-01-02")), ("RunAfterDate", "2020-01-06")]
    counting = [("RunAfterDays", 3), ("RunEveryNPeriods", 3, 1), ("RunEveryNPeriods", 2, 0), ("RunOnce",)]
    combos = []
    for dv in ("plain", "nan_first", "nan_partial"):
        for m in stateless + counting + [("RunDaily",), ("RunQuarterly",), ("RunYearly",)]:
            combos.append(([m], dv, "single"))
        for a in stateless:
            for c in counting:
                combos.append(([a, c], dv, "or"))
                combos.append(([c, a], dv, "or"))
        for c1 in counting:
            for c2 in counting:
                if c1 != c2:
                    combos.append(([c1, c2], dv, "or"))
        combos.append(([stateless[0], counting[0], counting[1]], dv, "or"))
    for kd in kinds:
        for item, (n, npat, viols, nv) in ctx.run(kd, MOD, "combo_case", combos, chunksize=4):
            ctx.add(states=1, transitions=n, traces_validated_against_impl=1, evaluations=1)
            ctx.mark(("combo", kd, json.dumps(item, default=str)))
            for v in viols:
                ctx.violation(dict(v, build=kd, module=MOD, case={"kind": "combo", "where": v["where"]}))
    rb = [(m, 2) for m in [("RunMonthly",), ("RunWeekly",), ("RunOnce",), ("RunEveryNPeriods", 5, 0), ("RunAfterDays", 8), ("RunQuarterly",)]]
    for kd in kinds:
        for item, (n, npat, viols, nv) in ctx.run(kd, MOD, "random_benchmark_case", rb, chunksize=1):
            ctx.add(states=1, transitions=n, traces_validated_against_impl=2, evaluations=2)
            ctx.mark(("randbench", kd, json.dumps(item, default=str)))
            for v in viols:
                ctx.violation(dict(v, build=kd, module=MOD, case={"kind": "randbench", "where": v["where"]}))
    ctx.bounds = {"random_benchmark_cases": len(rb), "scheduler_combinations": len(combos), "windows": use, "subsets_per_window": len(subsets), "counter_cases": len(citems), "backtests": len(bitems)}
    ctx.sample({"window": use[0], "index_subset_bits": 0b10110100, "algo": "RunWeekly", "flags": [True, False, False]})
    ctx.sample({"counter": citems[5]})
