"""C13 - algo stacks short-circuit, run_always runs, temp resets, perm persists.

Explorer: `product` - every AlgoStack up to a length bound over recording algos
{True, False} x {no attribute, run_always=True, run_always=False}, nested stacks / Or / Not,
Require and RunIfOutOfBounds truth tables, Strategy.run on trees of up to 3 levels."""
import itertools
import json

import numpy as np
import pandas as pd

from .. import rt, tree as T

MOD = "btmc.props.c13"

LOG = []

LEAVES = [(r, ra) for r in (True, False) for ra in (None, True, False)]


_REC = {}


def _rec_classes():
    """one recording class (and one subclass marked run_always at class level) per process"""
    if not _REC:
        bt = rt.bt()

        class Rec(bt.core.Algo):
            def __init__(self, ident, ret):
                super(Rec, self).__init__()
                self.ident = ident
                self.ret = ret

            def __call__(self, target):
                LOG.append(self.ident)
                return self.ret

        @bt.algos.run_always
        class RecAlways(Rec):
            pass

        _REC["c"] = (Rec, RecAlways)
    return _REC["c"]


def make(desc, counter):
    """desc -> (real algo object, reference node).  desc forms:
    ["leaf", ret, run_always]  ["stack", [desc...]]  ["or", [desc...]]  ["not", desc]"""
    bt = rt.bt()
    k = desc[0]
    if k == "leaf":
        ident = counter[0]
        counter[0] += 1
        Rec, RecAlways = _rec_classes()
        # the three documented ways of marking: the decorator on a class, the decorator on one object,
        # a plain attribute; unmarked objects of the very same classes stay unmarked
        if desc[2] is True and ident % 3 == 0:
            a = RecAlways(ident, desc[1])
        elif desc[2] is True and ident % 3 == 1:
            a = bt.algos.run_always(Rec(ident, desc[1]))
        else:
            a = Rec(ident, desc[1])
            if desc[2] is not None:
                a.run_always = desc[2]
        return a, ("leaf", ident, desc[1], desc[2])
    if k == "stack":
        subs = [make(d, counter) for d in desc[1]]
        return bt.core.AlgoStack(*[s[0] for s in subs]), ("stack", [s[1] for s in subs])
    if k == "or":
        subs = [make(d, counter) for d in desc[1]]
        return bt.algos.Or([s[0] for s in subs]), ("or", [s[1] for s in subs])
    if k == "not":
        sub = make(desc[1], counter)
        return bt.algos.Not(sub[0]), ("not", sub[1])
    if k == "or_shared":
        # ONE stateful object as two branches of the same Or (it answers alternately): every branch is a call
        ident = counter[0]
        counter[0] += 1
        Rec, _ = _rec_classes()

        class Flip(Rec):
            def __call__(self, target):
                LOG.append(self.ident)
                self.ret = not self.ret
                return not self.ret

        a = Flip(ident, desc[1])
        other = make(leaf(False, None), counter)
        return bt.algos.Or([a, other[0], a]), ("or_shared", ident, desc[1], other[1])
    raise KeyError(k)


def ref_call(node, log):
    """the 12-line reference interpreter"""
    k = node[0]
    if k == "leaf":
        log.append(node[1])
        return node[2]
    if k == "stack":
        res = True
        for m in node[1]:
            if res:
                res = ref_call(m, log)
            elif m[0] == "leaf" and m[3] is True:  # run_always applies to direct members
                ref_call(m, log)
        return bool(res)
    if k == "or":
        res = False
        for m in node[1]:
            res = bool(ref_call(m, log)) or res
        return res
    if k == "not":
        return not ref_call(node[1], log)
    if k == "or_shared":
        # first call answers node[2], second call the opposite; the other branch in between
        log.append(node[1])
        ref_call(node[3], log)
        log.append(node[1])
        return True


def stacks_case(item):
    descs = item
    viols = []
    n = 0
    outcomes = set()
    for desc in descs:
        counter = [0]
        algo, refnode = make(desc, counter)
        del LOG[:]
        got = algo(None)
        got_log = list(LOG)
        exp_log = []
        exp = ref_call(refnode, exp_log)
        n += 1
        outcomes.add((bool(got), tuple(got_log)))
        if bool(got) != bool(exp) or got_log != exp_log:
            viols.append({"rule": "stack_control_flow", "expected": {"stack": desc, "result": exp, "calls": exp_log}, "observed": {"result": bool(got), "calls": got_log}, "where": desc})
        if desc[0] == "stack":
            # the same members handed to a Strategy: its own stack runs them exactly like that
            counter = [0]
            subs = [make(d, counter) for d in desc[1]]
            strat = rt.bt().Strategy("s", [x[0] for x in subs])
            del LOG[:]
            got2 = strat.stack(strat)
            got_log2 = list(LOG)
            n += 1
            if bool(got2) != bool(exp) or got_log2 != exp_log:
                viols.append({"rule": "strategy_stack_control_flow", "expected": {"stack": desc, "result": exp, "calls": exp_log}, "observed": {"result": bool(got2), "calls": got_log2}, "where": desc})
    return (n, len(outcomes), viols[:30], len(viols))


def leaf(r, ra):
    return ["leaf", r, ra]


def flat_stacks(maxlen):
    out = []
    for n in range(0, maxlen + 1):
        for combo in itertools.product(LEAVES, repeat=n):
            out.append(["stack", [leaf(r, ra) for r, ra in combo]])
    return out


def members():
    """nested member alphabet: leaves, stacks of <= 2 leaves, Or of <= 3 plain leaves, Not"""
    m = [leaf(r, ra) for r, ra in LEAVES]
    for n in (1, 2):
        for combo in itertools.product(LEAVES, repeat=n):
            m.append(["stack", [leaf(r, ra) for r, ra in combo]])
    for n in (1, 2, 3):
        for combo in itertools.product((True, False), repeat=n):
            m.append(["or", [leaf(r, None) for r in combo]])
    m.append(["or_shared", True])
    m.append(["or_shared", False])
    m.append(["not", leaf(True, None)])
    m.append(["not", leaf(False, None)])
    m.append(["not", ["stack", [leaf(True, None), leaf(False, True)]]])
    m.append(["or", [["stack", [leaf(False, None), leaf(True, True)]], leaf(False, None)]])
    return m


def nested_stacks(tier):
    M = members()
    L = [leaf(r, ra) for r, ra in LEAVES]
    out = []
    for a in M:
        out.append(["stack", [a]])
        for b in M:
            out.append(["stack", [a, b]])
    if tier == "quick":
        # length 3 with one nested member in any position
        for pos in range(3):
            for nm in M[len(L) :]:
                for x in L:
                    for y in L:
                        mem = [x, y]
                        mem.insert(pos, nm)
                        out.append(["stack", mem])
    else:
        for a in M:
            for b in M:
                for c in M:
                    out.append(["stack", [a, b, c]])
    return out


# ----------------------------------------------------------------------


def require_case(item):
    bt = rt.bt()
    viols = []
    n = 0
    for present, predval, if_none in itertools.product(("absent", "none", "value", "falsy_value"), (True, False), (True, False)):
        calls = []

        def pred(x, calls=calls, predval=predval):
            calls.append(x)
            return predval

        a = bt.algos.Require(pred, "item", if_none=if_none)

        class Tgt(object):
            temp = {}

        t = Tgt()
        t.temp = {}
        if present == "none":
            t.temp["item"] = None
        elif present == "value":
            t.temp["item"] = ["x"]
        elif present == "falsy_value":
            t.temp["item"] = []
        got = a(t)
        n += 1
        if present in ("absent", "none"):
            exp, exp_calls = if_none, []
        else:
            exp, exp_calls = predval, [t.temp["item"]]
        if bool(got) != bool(exp) or calls != exp_calls:
            viols.append({"rule": "require", "expected": {"item": present, "pred": predval, "if_none": if_none, "result": exp, "pred_calls": len(exp_calls)}, "observed": {"result": got, "pred_calls": len(calls)}, "where": [present, predval, if_none]})
    return (n, n, viols, len(viols))


def oob_case(item):
    """RunIfOutOfBounds on a real strategy whose children hold real weights"""
    bt = rt.bt()
    held, targets, tol, cash = item
    spec = {"shape": "T1c", "integer": False, "capital": 64.0}
    t = T.Tree(spec)
    if held:
        t.apply(["batch", [["rebbase", [], k, w, 64.0] for k, w in held.items() if w != 0.0]])
    root = t.root
    root.temp = {}
    if targets is not None:
        root.temp["weights"] = dict(targets)
    if cash is not None:
        root.temp["cash"] = cash
    weights = {k: float(c.weight) for k, c in root.children.items()}
    if targets is None:
        exp = True
    else:
        exp = False
        for k, w in weights.items():
            if k in targets and not (abs((w - targets[k]) / targets[k]) <= tol):
                exp = True
    algo = bt.algos.RunIfOutOfBounds(tol)
    viols = []
    try:
        got = bool(algo(root))
        if got != exp and cash is None:
            viols.append({"rule": "run_if_out_of_bounds", "expected": {"weights": weights, "targets": targets, "tolerance": tol, "result": exp}, "observed": got, "where": list(item)})
        elif got != exp and not (got and not exp):
            # with a cash entry the algo may additionally fire on the cash deviation; it must
            # never miss a deviating held target
            viols.append({"rule": "run_if_out_of_bounds", "expected": {"weights": weights, "targets": targets, "tolerance": tol, "cash": cash, "result": exp}, "observed": got, "where": list(item)})
    except Exception as e:
        sig = "oob|cash=%s|deviating=%s|exc=%s" % ("set" if cash is not None else "unset", exp, type(e).__name__)
        viols.append({"rule": "run_if_out_of_bounds", "sig": sig, "expected": {"weights": weights, "targets": targets, "tolerance": tol, "cash": cash, "result": exp}, "observed": rt.describe(e), "where": list(item)})
    return (1, 1, viols, len(viols))


# ----------------------------------------------------------------------


def strategy_run_case(item):
    """temp empty at entry, perm persists, own stack before children, each child once per run"""
    bt = rt.bt()
    shape, nruns, second_algo_fails = item[:3]
    intruder = item[3] if len(item) > 3 else None
    events = []

    class W(bt.core.Algo):
        def __init__(self, tag, ret=True):
            super(W, self).__init__()
            self.tag = tag
            self.ret = ret

        def __call__(self, target):
            events.append((self.tag, target, dict(target.temp), dict(target.perm)))
            if intruder == "parent" and self.tag.endswith(".1"):
                # a parent's algo leaves a note in its sub-strategies' temp before they run
                for c in target.children.values():
                    if isinstance(c, bt.core.StrategyBase):
                        c.temp["note_from_parent"] = 1
            target.temp[self.tag] = target.temp.get(self.tag, 0) + 1
            target.perm[self.tag] = target.perm.get(self.tag, 0) + 1
            return self.ret

    def S(name, children):
        return bt.Strategy(name, [W(name + ".1"), W(name + ".2", ret=not second_algo_fails), W(name + ".3")], children)

    if shape == "one":
        root = S("r", ["a"])
    elif shape == "two":
        root = S("r", [S("s1", ["a"]), S("s2", ["b"]), "b"])
    else:
        root = S("r", [S("s1", [S("s11", ["a"]), "b"]), S("s2", ["a"])])
    data = T.frame(T.TABLES["exact"], 4, ["a", "b"])
    root.setup(data)
    root.adjust(64.0)
    dates = list(data.index)
    root.update(dates[0])
    viols = []
    names = [n.name for n in root.members if isinstance(n, bt.core.StrategyBase)]
    for r in range(nruns):
        del events[:]
        if intruder == "between":
            # something written into temp after the previous run ended (user code, an algo called by hand)
            for n in root.members:
                if isinstance(n, bt.core.StrategyBase):
                    n.temp["note_between_runs"] = r
        root.run()
        mine = [(tag, tgt, temp, perm) for tag, tgt, temp, perm in events if tgt.root is root]
        order = [tag for tag, _, _, _ in mine]
        exp_order = []

        def walk(n):
            exp_order.append(n.name + ".1")
            exp_order.append(n.name + ".2")
            if not second_algo_fails:
                exp_order.append(n.name + ".3")
            for c in n.children.values():
                if isinstance(c, bt.core.StrategyBase):
                    walk(c)

        walk(root)
        if order != exp_order:
            viols.append({"rule": "run_order", "expected": exp_order, "observed": order, "where": list(item) + [r]})
        for tag, tgt, temp, perm in mine:
            if tag.endswith(".1"):
                if temp != {}:
                    viols.append({"rule": "temp_not_empty_at_entry", "expected": {}, "observed": {k: v for k, v in temp.items()}, "where": list(item) + [r]})
                exp_perm = {} if r == 0 else {tgt.name + ".1": r, tgt.name + ".2": r}
                if r > 0 and not second_algo_fails:
                    exp_perm[tgt.name + ".3"] = r
                if perm != exp_perm:
                    viols.append({"rule": "perm_not_kept", "expected": exp_perm, "observed": perm, "where": list(item) + [r]})
        if r + 1 < len(dates):
            root.update(dates[r + 1])
    return (nruns, 1, viols, len(viols))


def replay(case):
    k = case["kind"]
    if k == "stack":
        return stacks_case([case["where"]])[2]
    if k == "require":
        return [v for v in require_case(None)[2] if v["where"] == case["where"]]
    if k == "oob":
        return oob_case(tuple(case["where"]))[2]
    w = case["where"]
    return strategy_run_case(tuple(w[:4]) if len(w) > 4 else tuple(w[:3]))[2]


def run(ctx):
    ctx.rule = "every stack up to the length bound over {True,False} x {plain, run_always=True, run_always=False} recording algos, nested one level with stacks / Or / Not; the Require and RunIfOutOfBounds truth tables; Strategy.run on trees of 1-3 levels for 3 consecutive runs; a case is non-trivial if it is a distinct (result, call log) outcome"
    ctx.assumptions += ["run_always applies to a stack's direct members", "truthiness of results is compared (a stack may return the falsy value itself)"]
    flat = flat_stacks(4 if ctx.tier == "quick" else 5)
    nested = nested_stacks(ctx.tier)
    alls = flat + nested
    chunks = [alls[i : i + 400] for i in range(0, len(alls), 400)]
    kinds = ["py"] if ctx.tier == "quick" else ["py", "cy"]
    for kind in kinds:
        for item, (n, nout, viols, nv) in ctx.run(kind, MOD, "stacks_case", chunks, chunksize=1):
            ctx.add(states=n, transitions=n, traces_validated_against_impl=n, evaluations=n)
            ctx.nontrivial_count += nout
            for v in viols:
                ctx.violation(dict(v, build=kind, module=MOD, case={"kind": "stack", "where": v["where"]}))
        for item, (n, nout, viols, nv) in ctx.run(kind, MOD, "require_case", [None], chunksize=1):
            ctx.add(states=n, transitions=n, traces_validated_against_impl=n, evaluations=n)
            for v in viols:
                ctx.violation(dict(v, build=kind, module=MOD, case={"kind": "require", "where": v["where"]}))
        oobs = []
        helds = [{}, {"a": 0.5, "b": 0.25}, {"a": 0.5, "b": 0.25, "c": 0.25}, {"a": -0.25, "b": 0.75}]
        tgts = [None, {"a": 0.5, "b": 0.25}, {"a": 0.4, "b": 0.25}, {"a": 0.5, "b": 0.3, "c": 0.2}, {"a": -0.25, "b": 0.75}, {"c": 0.25}, {"a": 0.625}, {"a": -0.5, "b": 0.75}, {"a": -0.125, "b": 0.75}, {"a": -0.25}]
        for held in helds:
            for tg in tgts:
                for tol in (0.0, 0.1, 0.25, 0.5):
                    for cash in (None, 0.25):
                        oobs.append((held, tg, tol, cash))
        for item, (n, nout, viols, nv) in ctx.run(kind, MOD, "oob_case", oobs, chunksize=8):
            ctx.add(states=1, transitions=1, traces_validated_against_impl=1, evaluations=1)
            ctx.mark(("oob", kind, json.dumps(item)))
            for v in viols:
                ctx.violation(dict(v, build=kind, module=MOD, case={"kind": "oob", "where": list(item)}))
        runs = [(shape, 3, fails, intr) for shape in ("one", "two", "three") for fails in (False, True) for intr in (None, "between", "parent")]
        for item, (n, nout, viols, nv) in ctx.run(kind, MOD, "strategy_run_case", runs, chunksize=1):
            ctx.add(states=1, transitions=n, traces_validated_against_impl=n, evaluations=n)
            ctx.mark(("run", kind) + tuple(map(str, item)))
            for v in viols:
                ctx.violation(dict(v, build=kind, module=MOD, case={"kind": "strategy_run", "where": list(item)}))
    ctx.bounds = {"flat_stacks": len(flat), "nested_stacks": len(nested), "oob_cases": len(oobs), "strategy_run_cases": len(runs), "builds": kinds}
    ctx.sample({"stack": flat[len(flat) // 2]})
    ctx.sample({"stack": nested[len(nested) // 2]})
