"""C14 - selection algos select exactly the documented, tradable set.

Explorer: `product` - universes from a cell alphabet x algo parameters x prior temp, and
pipelines of <= 3 selection algos, each executed on a real Strategy; oracle: set-builder
definitions over plain lists."""
import itertools
import json
import math
import random

import numpy as np
import pandas as pd

from .. import rt

MOD = "btmc.props.c14"

NAN = float("nan")
COLS = ["a", "b", "c"]
CELLS = [NAN, -1.0, 0.0, 1.0, 2.0]
DATES = ["2020-01-01", "2020-01-02", "2020-01-03", "2020-01-06", "2020-01-07"]
HIST = {  # the three rows before the current one
    "full": [1.0, 1.5, 2.5],
    "late": [NAN, NAN, 2.0],
    "gap": [1.0, NAN, 4.0],
    "never": [NAN, NAN, NAN],
    "down": [4.0, 2.0, 1.0],
}


def isnan(x):
    return isinstance(x, float) and x != x


class Env(object):
    """the universe as plain lists + everything the reference needs"""

    def __init__(self, hist, cells, now_i=3, stat=None, signal=None, otr=None, children=None, perm=None, events=None):
        self.events = events or {}
        self.labels = DATES[: now_i + 2]
        self.now_i = now_i
        self.rows = []
        for i in range(len(self.labels)):
            r = {}
            for k, c in enumerate(COLS):
                if i < 3:
                    r[c] = HIST[hist[k]][i]
                elif i == 3:
                    r[c] = cells[k]
                else:
                    r[c] = 9.0  # the future: must never matter
            self.rows.append(r)
        self.stat = stat
        self.signal = signal
        self.otr = otr
        self.children = children or {}
        self.perm = perm or {}

    def frame(self):
        return pd.DataFrame({c: [r[c] for r in self.rows] for c in COLS}, index=pd.DatetimeIndex(self.labels), dtype=float)

    def cur(self, c):
        return self.rows[self.now_i].get(c, NAN)

    def tradable(self, names, include_negative):
        return [c for c in names if c in COLS and not isnan(self.cur(c)) and (include_negative or self.cur(c) > 0)]

    def days_between(self, i, j):
        return (pd.Timestamp(self.labels[j]) - pd.Timestamp(self.labels[i])).days


def build_target(env):
    bt = rt.bt()
    kids = []
    for name, kind in env.children.items():
        if kind == "strat":
            # a sub-strategy with explicitly constructed children of its own (never the parent's business)
            own = [c for c in COLS if c not in env.children]
            kids.append(bt.Strategy(name, [], [bt.Security(own[0]), bt.HedgeSecurity(own[1])] if len(own) >= 2 else [bt.Security(c) for c in own]))
            continue
        kids.append({"sec": bt.Security, "fi": bt.FixedIncomeSecurity, "hedge": bt.HedgeSecurity, "cp": bt.CouponPayingSecurity}[kind](name))
    s = bt.Strategy("s", [], kids if kids else None)
    kw = {}
    if env.stat is not None:
        kw["stat"] = env.stat
    if env.signal is not None:
        kw["signal"] = env.signal
    if env.otr is not None:
        kw["otr"] = env.otr
    if env.events:
        now = pd.Timestamp(env.labels[env.now_i])
        cl = env.events.get("closes", {})
        kw["closes"] = pd.DataFrame({"date": pd.to_datetime([now + pd.Timedelta(days=d) for d in cl.values()])}, index=list(cl))
        ro = env.events.get("rolls", {})
        kw["rolls"] = pd.DataFrame({"date": pd.to_datetime([now + pd.Timedelta(days=v[0]) for v in ro.values()]), "target": [v[1] for v in ro.values()], "factor": [1.0 for _ in ro]}, index=list(ro))
    if any(k == "cp" for k in env.children.values()):
        kw["coupons"] = pd.DataFrame(0.0, index=pd.DatetimeIndex(env.labels), columns=COLS)
    data = env.frame()
    s.setup(data, **kw)
    s.adjust(1000.0)
    for i in range(env.now_i + 1):
        s.update(data.index[i])
    s.perm = {k: set(v) for k, v in env.perm.items()}
    return s


# ----------------------------------------------------------------------
# algo specs: (name, params) -> real algo, and the reference semantics


def make(spec):
    A = rt.bt().algos
    bt = rt.bt()
    name, p = spec
    D = lambda d: pd.DateOffset(days=d)  # noqa: E731
    if name == "SelectAll":
        return A.SelectAll(include_no_data=p[0], include_negative=p[1])
    if name == "SelectThese":
        return A.SelectThese(list(p[2]), include_no_data=p[0], include_negative=p[1])
    if name == "SelectHasData":
        return A.SelectHasData(lookback=D(p[2]), min_count=p[3], include_no_data=p[0], include_negative=p[1])
    if name == "SelectN":
        return A.SelectN(p[0], sort_descending=p[1], all_or_none=p[2], filter_selected=p[3])
    if name == "StatTotalReturn":
        return A.StatTotalReturn(lookback=D(p[0]), lag=D(p[1]))
    if name == "SelectMomentum":
        return A.SelectMomentum(p[0], lookback=D(p[1]), lag=D(p[2]), sort_descending=p[3], all_or_none=p[4])
    if name == "SetStat":
        return A.SetStat("stat", lag=D(p[0]))
    if name == "SelectWhere":
        return A.SelectWhere("signal", include_no_data=p[0], include_negative=p[1])
    if name == "SelectRandomly":
        return A.SelectRandomly(n=p[2], include_no_data=p[0], include_negative=p[1])
    if name == "SelectRegex":
        return A.SelectRegex(p[0])
    if name == "SelectTypes":
        T = {"sec": bt.Security, "fi": bt.FixedIncomeSecurity, "hedge": bt.HedgeSecurity, "cp": bt.CouponPayingSecurity, "base": bt.core.SecurityBase, "node": bt.core.Node}
        return A.SelectTypes(include_types=tuple(T[x] for x in p[0]), exclude_types=tuple(T[x] for x in p[1]))
    if name == "SelectActive":
        return A.SelectActive()
    if name == "ClosePositionsAfterDates":
        return A.ClosePositionsAfterDates("closes")
    if name == "RollPositionsAfterDates":
        return A.RollPositionsAfterDates("rolls")
    if name == "ResolveOnTheRun":
        return A.ResolveOnTheRun("otr", include_no_data=p[0], include_negative=p[1])
    raise KeyError(name)


class Unspecified(Exception):
    pass


def filt(env, names, ind, ineg):
    """the tradability filter under the (include_no_data, include_negative) flags"""
    if ind and ineg:
        return list(names)
    if ind and not ineg:
        raise Unspecified()  # documentation does not say which flag wins
    return env.tradable(names, ineg)


def ref_apply(spec, temp, env):
    """reference semantics; returns the algo's result; mutates temp.  May raise Unspecified."""
    name, p = spec
    if name == "SelectAll":
        temp["selected"] = filt(env, COLS, p[0], p[1])
        return True
    if name == "SelectThese":
        temp["selected"] = filt(env, list(p[2]), p[0], p[1])
        return True
    if name == "SelectHasData":
        pool = list(temp["selected"]) if "selected" in temp else list(COLS)
        lo = -p[2]
        keep = []
        for c in pool:
            cnt = sum(1 for i in range(env.now_i + 1) if env.days_between(env.now_i, i) >= lo and not isnan(env.rows[i].get(c, NAN)))
            if cnt >= p[3]:
                keep.append(c)
        temp["selected"] = filt(env, keep, p[0], p[1])
        return True
    if name == "SelectN":
        if any(v == "any" for v in temp["stat"].values()):
            raise Unspecified()
        stat = {k: v for k, v in temp["stat"].items() if not isnan(v)}
        if p[3] and "selected" in temp:
            stat = {k: v for k, v in stat.items() if k in temp["selected"]}
        n = p[0]
        keep = n if n >= 1 else int(n * len(stat))
        order = sorted(stat, key=lambda k: stat[k], reverse=p[1])
        sel = order[: int(keep)]
        if p[2] and len(sel) < keep:
            sel = []
        temp["selected"] = ("topn", sel, stat, p[1], int(min(keep, len(stat))) if not (p[2] and len(stat) < keep) else 0)
        return True
    if name == "StatTotalReturn":
        sel = list(temp["selected"])
        t0 = -p[1]
        if env.days_between(env.now_i, 0) > t0:
            return False
        idx = [i for i in range(env.now_i + 1) if t0 - p[0] <= env.days_between(env.now_i, i) <= t0]
        st = {}
        for c in sel:
            if not idx:
                st[c] = NAN
            else:
                a, b = env.rows[idx[0]][c], env.rows[idx[-1]][c]
                st[c] = NAN if (isnan(a) or isnan(b) or a == 0) else b / a - 1.0
                if a == 0 and not isnan(b):
                    st[c] = "any"  # division by zero price: inf/nan, not defined
        if not idx:
            raise Unspecified()
        temp["stat"] = st
        return True
    if name == "SelectMomentum":
        r = ref_apply(("StatTotalReturn", (p[1], p[2])), temp, env)
        if not r:
            return False
        return ref_apply(("SelectN", (p[0], p[3], p[4], False)), temp, env)
    if name == "SetStat":
        t0 = -p[0]
        lab = pd.Timestamp(env.labels[env.now_i]) + pd.Timedelta(days=t0)
        if lab not in env.stat.index:
            return False
        temp["stat"] = {c: float(env.stat.loc[lab, c]) for c in env.stat.columns}
        return True
    if name == "SelectWhere":
        lab = pd.Timestamp(env.labels[env.now_i])
        if lab in env.signal.index:
            row = env.signal.loc[lab]
            sel = [c for c in env.signal.columns if row[c] is True or row[c] == True]  # noqa: E712
            if p[0] and not p[1]:
                raise Unspecified()
            temp["selected"] = sel if p[0] else env.tradable(sel, p[1])
        return True
    if name == "SelectRandomly":
        pool = list(temp["selected"]) if "selected" in temp else list(COLS)
        if p[0] and not p[1]:
            raise Unspecified()
        pool = pool if p[0] else env.tradable(pool, p[1])
        n = p[2]
        if n is None:
            temp["selected"] = pool
        else:
            temp["selected"] = ("subset", pool, min(int(n), len(pool)))
        return True
    if name == "SelectRegex":
        import re

        rx = re.compile(p[0])
        temp["selected"] = [s for s in temp["selected"] if rx.search(s)]
        return True
    if name == "SelectTypes":
        H = {"sec": {"sec"}, "fi": {"fi", "cp"}, "hedge": {"hedge"}, "cp": {"cp"}, "base": {"sec", "fi", "hedge", "cp"}, "node": {"sec", "fi", "hedge", "cp", "strat"}}
        inc = set().union(*[H[x] for x in p[0]]) if p[0] else set()
        exc = set().union(*[H[x] for x in p[1]]) if p[1] else set()
        sel = [k for k, kind in env.children.items() if kind in inc and kind not in exc]
        if "selected" in temp:
            sel = [s for s in sel if s in temp["selected"]]
        temp["selected"] = sel
        return True
    if name in ("ClosePositionsAfterDates", "RollPositionsAfterDates"):
        # whatever it holds (nothing, here): a security whose date has passed is recorded as closed / rolled
        key, table = ("closed", env.events.get("closes", {})) if name.startswith("Close") else ("rolled", env.events.get("rolls", {}))
        for sec, v in table.items():
            off = v if key == "closed" else v[0]
            if sec in env.children and env.children[sec] != "strat" and off <= 0:
                env._ref_perm.setdefault(key, set()).add(sec)
        return True
    if name == "SelectActive":
        perm = getattr(env, "_ref_perm", env.perm)
        gone = set(perm.get("rolled", [])) | set(perm.get("closed", []))
        temp["selected"] = [s for s in temp["selected"] if s not in gone]
        return True
    if name == "ResolveOnTheRun":
        lab = pd.Timestamp(env.labels[env.now_i])
        sel = list(temp["selected"])
        aliases = [s for s in sel if s in env.otr.columns]
        resolved = [env.otr.loc[lab, a] for a in aliases]
        if p[0] and not p[1]:
            raise Unspecified()
        if not p[0]:
            resolved = env.tradable(resolved, p[1])
        temp["selected"] = resolved + [s for s in sel if s not in env.otr.columns]
        return True
    raise KeyError(name)


def compare(real_temp, ref_temp, real_res, ref_res, env):
    out = []
    if bool(real_res) != bool(ref_res):
        out.append(("result", ref_res, real_res))
    if "selected" in ref_temp or "selected" in real_temp:
        rs = real_temp.get("selected")
        es = ref_temp.get("selected")
        rl = None if rs is None else list(rs)
        if isinstance(es, tuple) and es[0] == "topn":
            _, sel, stat, desc, size = es
            if rl is None or len(rl) != size or any(x not in stat for x in rl) or len(set(rl)) != len(rl):
                out.append(("selected_size_or_pool", {"size": size, "pool": sorted(stat)}, rl))
            else:
                rej = [k for k in stat if k not in rl]
                sign = 1 if desc else -1
                if any(sign * stat[c] < sign * stat[r] for c in rl for r in rej):
                    out.append(("selected_not_the_best", {"stat": stat, "descending": desc, "n": size}, rl))
                if any(sign * stat[rl[i]] < sign * stat[rl[i + 1]] for i in range(len(rl) - 1)):
                    out.append(("selected_not_sorted", {"stat": stat, "descending": desc}, rl))
        elif isinstance(es, tuple) and es[0] == "subset":
            _, pool, size = es
            if rl is None or len(rl) != size or any(x not in pool for x in rl) or len(set(rl)) != len(rl):
                out.append(("random_subset", {"pool": pool, "size": size}, rl))
        else:
            if rl is None or es is None or sorted(rl) != sorted(es):
                out.append(("selected", es, rl))
    if "stat" in ref_temp:
        rs = real_temp.get("stat")
        if rs is None:
            out.append(("stat_missing", ref_temp["stat"], None))
        else:
            for k, v in ref_temp["stat"].items():
                if v == "any":
                    continue
                if k not in rs.index:
                    out.append(("stat_key", k, list(rs.index)))
                    continue
                x = float(rs[k])
                if isnan(v) != isnan(x) or (not isnan(v) and abs(x - v) > 1e-12 * max(1.0, abs(v))):
                    out.append(("stat_value", {k: v}, {k: x}))
    elif "stat" in real_temp and "stat" not in ref_temp:
        out.append(("stat_unexpected", None, "set"))
    return out


def run_pipeline(env, pipeline, prior, seed=0):
    """-> list of (what, expected, observed) or None if the case is outside the documented domain"""
    ref_temp = {}
    if prior is not None:
        ref_temp["selected"] = list(prior)
    env._ref_perm = {k: set(v) for k, v in env.perm.items()}
    ref_res = True
    try:
        for spec in pipeline:
            ref_res = ref_apply(spec, ref_temp, env)
            if not ref_res:
                break
            # materialise relational intermediates so that the next algo has a concrete pool
            if isinstance(ref_temp.get("selected"), tuple) and spec is not pipeline[-1]:
                raise Unspecified()
    except Unspecified:
        return None
    s = build_target(env)
    s.temp = {}
    if prior is not None:
        s.temp["selected"] = list(prior)
    rt.seed_rng(seed)
    real_res = True
    for spec in pipeline:
        real_res = make(spec)(s)
        if not real_res:
            break
    out = compare(s.temp, ref_temp, real_res, ref_res, env)
    if not out:
        # the same algo objects used a second time on the same date with other temp contents first
        # (one instance shared by two legs of a stack): what they answer must not depend on that
        algos = [make(spec) for spec in pipeline]
        w = build_target(env)
        for warm_prior in (list(COLS),):
            w.temp = {} if warm_prior is None else {"selected": list(warm_prior)}
            try:
                for a in algos:
                    if not a(w):
                        break
            except Exception:
                pass
        s3 = build_target(env)
        s3.temp = {}
        if prior is not None:
            s3.temp["selected"] = list(prior)
        rt.seed_rng(seed)
        res3 = True
        for a in algos:
            res3 = a(s3)
            if not res3:
                break
        out3 = compare(s3.temp, ref_temp, res3, ref_res, env)
        out += [("reused_instance_" + x[0], x[1], x[2]) for x in out3]
    if any(sp[0] == "SelectRandomly" for sp in pipeline) and not out:
        # reproducible under the seed
        s2 = build_target(env)
        s2.temp = {}
        if prior is not None:
            s2.temp["selected"] = list(prior)
        rt.seed_rng(seed)
        for spec in pipeline:
            if not make(spec)(s2):
                break
        if list(s2.temp.get("selected", [])) != list(s.temp.get("selected", [])):
            out.append(("random_not_reproducible", list(s.temp.get("selected", [])), list(s2.temp.get("selected", []))))
    return out


# ----------------------------------------------------------------------
# enumeration


def stat_table(kind):
    idx = pd.DatetimeIndex(DATES)
    if kind == "ties":
        rows = [[1.0, 1.0, 0.5], [2.0, 2.0, 2.0], [0.5, NAN, 0.5], [1.0, 3.0, 3.0], [7.0, 7.0, 7.0]]
    elif kind == "nan":
        rows = [[NAN, 1.0, 2.0], [3.0, NAN, 1.0], [1.0, 2.0, NAN], [NAN, NAN, 1.0], [7.0, 7.0, 7.0]]
    else:
        rows = [[3.0, 1.0, 2.0], [1.0, 2.0, 3.0], [2.0, 3.0, 1.0], [-1.0, 0.5, 2.5], [7.0, 7.0, 7.0]]
    return pd.DataFrame(rows, index=idx, columns=COLS)


def sparse_stat():
    return pd.DataFrame([[3.0, 1.0, 2.0], [1.0, 2.0, 3.0]], index=pd.DatetimeIndex([DATES[0], DATES[4]]), columns=COLS)


def signal_table(kind):
    idx = pd.DatetimeIndex(DATES)
    pats = {"mixed": [[True, False, True], [False, True, True], [True, True, False], [True, False, True], [True, True, True]], "none": [[False] * 3] * 5, "all": [[True] * 3] * 5}
    df = pd.DataFrame(pats[kind], index=idx, columns=COLS)
    return df


def cases(tier, seed):
    """yield (group, env-args, pipeline, prior)"""
    flags = [(False, False), (False, True), (True, True), (True, False)]
    hists_q = [("full", "late", "gap"), ("never", "full", "down"), ("gap", "gap", "full"), ("late", "never", "late")]
    hists = hists_q if tier == "quick" else list(itertools.product(["full", "late", "gap", "never"], repeat=3))
    cells_all = list(itertools.product(CELLS, repeat=3))
    if tier == "quick":
        cells = cells_all[seed % 2 :: 2]
    else:
        cells = cells_all
    priors = [None, ["a"], ["b", "c"], ["c", "a", "b"], []]
    out = []
    for h in hists:
        for c in cells:
            for f in flags:
                out.append(("SelectAll", (h, c), [("SelectAll", f)], None))
                for tk in (("a",), ("b", "c"), ("c", "a", "b")):
                    out.append(("SelectThese", (h, c), [("SelectThese", f + (tk,))], None))
    for h in hists:
        for c in cells[::5]:
            for f in flags[:3]:
                for lb in (0, 1, 2, 5, 6):
                    for mc in (0, 1, 2, 3, 4):
                        for pr in priors[:4]:
                            out.append(("SelectHasData", (h, c), [("SelectHasData", f + (lb, mc))], pr))
    # ranked selection
    for kind in ("plain", "ties", "nan"):
        for n in (0, 1, 2, 3, 5, 0.25, 0.5, 0.75):
            for desc in (True, False):
                for aon in (True, False):
                    for fs in (True, False):
                        for pr in priors:
                            for lag in (0, 1, 3, 4):
                                out.append(("SetStat+SelectN", (hists_q[0], (1.0, 2.0, 1.0), {"stat": kind}), [("SetStat", (lag,)), ("SelectN", (n, desc, aon, fs))], pr))
    for lag in (0, 1, 2, 3, 6):
        out.append(("SetStat_sparse", (hists_q[0], (1.0, 2.0, 1.0), {"stat": "sparse"}), [("SetStat", (lag,))], None))
    # total return windows
    for h in hists_q + [("down", "full", "gap")]:
        for c in [(1.0, 2.0, 2.0), (2.0, NAN, 1.0), (4.0, 1.0, 0.0), (NAN, 2.0, 1.0)]:
            for lb in (0, 1, 2, 3, 5, 6, 10):
                for lag in (0, 1, 2, 3, 5, 6):
                    for pr in (["a", "b", "c"], ["b"], ["c", "a"]):
                        out.append(("StatTotalReturn", (h, c), [("StatTotalReturn", (lb, lag))], pr))
                        for n in (1, 2):
                            for desc in (True, False):
                                out.append(("SelectMomentum", (h, c), [("SelectMomentum", (n, lb, lag, desc, False))], pr))
                        if lag in (0, 1) and lb in (2, 3, 5):
                            # all or nothing: fewer rankable names than asked for leaves nothing selected
                            for n in (2, 3):
                                out.append(("SelectMomentum", (h, c), [("SelectMomentum", (n, lb, lag, True, True))], pr))
    # signals
    for kind in ("mixed", "none", "all", "sparse", "shifted", "holes"):
        for h in hists_q:
            for c in cells[::7]:
                for f in flags:
                    for pr in (None, ["a"]):
                        out.append(("SelectWhere", (h, c, {"signal": kind}), [("SelectWhere", f)], pr))
    # random subsets
    for h in hists_q[:2]:
        for c in cells[::7]:
            for f in flags:
                for n in (None, 0, 1, 2, 3, 5):
                    for pr in priors:
                        for sd in (0, 1):
                            out.append(("SelectRandomly", (h, c, {"seed": sd}), [("SelectRandomly", f + (n,))], pr))
    for rx in ("^a$", "[bc]", "x", ""):
        for pr in priors[1:]:
            out.append(("SelectRegex", (hists_q[0], (1.0, 1.0, 1.0)), [("SelectRegex", (rx,))], pr))
    kids = [{"a": "sec", "b": "fi", "c": "hedge"}, {"a": "cp", "b": "sec"}, {"c": "hedge", "a": "hedge"}, {}, {"a": "sec", "s1": "strat"}, {"s1": "strat"}]
    for ch in kids:
        for inc in (("node",), ("sec",), ("fi",), ("base",), ("sec", "hedge")):
            for exc in ((), ("hedge",), ("cp",), ("fi",)):
                for pr in (None, ["a", "c"], []):
                    out.append(("SelectTypes", (hists_q[0], (1.0, 1.0, 1.0), {"children": ch}), [("SelectTypes", (inc, exc))], pr))
    for perm in ({}, {"closed": ["a"]}, {"rolled": ["b"]}, {"closed": ["a"], "rolled": ["b", "c"]}, {"rolled": ["a"], "closed": ["c"]}):
        for pr in priors[1:]:
            out.append(("SelectActive", (hists_q[0], (1.0, 1.0, 1.0), {"perm": perm}), [("SelectActive", ())], pr))
    # the close / roll algos in front of SelectActive, on securities that hold nothing when their date passes
    kids3 = {"a": "sec", "b": "sec", "c": "sec"}
    for ev in ({"closes": {"a": -1}}, {"closes": {"a": 0, "b": 2}}, {"rolls": {"a": [-1, "b"]}}, {"rolls": {"b": [0, "c"], "c": [3, "a"]}}, {"closes": {"c": -2}, "rolls": {"a": [-1, "b"]}}):
        for pr in priors[1:]:
            for pipe in ([("ClosePositionsAfterDates", ()), ("RollPositionsAfterDates", ()), ("SelectActive", ())], [("RollPositionsAfterDates", ()), ("ClosePositionsAfterDates", ()), ("SelectActive", ())]):
                out.append(("SelectActive", (hists_q[0], (1.0, 1.0, 1.0), {"children": kids3, "events": ev}), pipe, pr))
    for c in cells[::9]:
        for f in flags:
            for pr in (["x"], ["x", "y"], ["x", "c"], ["c"], []):
                out.append(("ResolveOnTheRun", (hists_q[0], c, {"otr": True}), [("ResolveOnTheRun", f)], pr))
    # pipelines (prior contents of temp come from real upstream algos)
    ups = [("SelectAll", (True, True)), ("SelectAll", (False, False)), ("SelectThese", (True, True, ("c", "a"))), ("SelectThese", (False, True, ("a", "b", "c")))]
    downs = [("SelectHasData", (False, False, 5, 2)), ("SelectRandomly", (False, False, 2)), ("SelectRandomly", (False, False, None)), ("SelectRandomly", (False, True, 1)), ("SelectRegex", ("[ab]",)), ("SelectMomentum", (1, 5, 0, True, False)), ("StatTotalReturn", (3, 1))]
    for h in hists_q:
        for c in cells[::3]:
            for u in ups:
                for d in downs:
                    out.append(("pipeline2", (h, c), [u, d], None))
                    if d[0] in ("SelectHasData", "SelectRegex"):
                        for d2 in (("SelectRandomly", (False, False, 1)), ("SelectMomentum", (2, 3, 1, False, False))):
                            out.append(("pipeline3", (h, c), [u, d, d2], None))
    return out


def build_env(args):
    h, c = args[0], args[1]
    extra = args[2] if len(args) > 2 else {}
    stat = None
    if "stat" in extra:
        stat = sparse_stat() if extra["stat"] == "sparse" else stat_table(extra["stat"])
    signal = None
    if "signal" in extra:
        if extra["signal"] == "sparse":
            signal = signal_table("mixed").iloc[[0, 2, 4]]
        elif extra["signal"] == "shifted":
            signal = signal_table("mixed").shift(3)  # object dtype: NaN, then booleans
        elif extra["signal"] == "holes":
            signal = signal_table("all").astype(object)
            signal.iloc[3, 0] = NAN
            signal.iloc[3, 2] = NAN
        else:
            signal = signal_table(extra["signal"])
    otr = None
    if extra.get("otr"):
        otr = pd.DataFrame({"x": ["a", "a", "b", "b", "c"], "y": ["c", "c", "c", "a", "a"]}, index=pd.DatetimeIndex(DATES))
    return Env(h, c, stat=stat, signal=signal, otr=otr, children=extra.get("children"), perm=extra.get("perm"), events=extra.get("events")), extra.get("seed", 0)


def chunk_case(items):
    viols = []
    n = skipped = 0
    seen = set()
    for group, args, pipeline, prior in items:
        env, seed = build_env(args)
        try:
            out = run_pipeline(env, pipeline, prior, seed)
        except Exception as e:
            out = [("exception", "no exception", rt.describe(e))]
        if out is None:
            skipped += 1
            continue
        n += 1
        for what, exp, obs in out[:2]:
            viols.append({"rule": "selection_" + what, "expected": {"algo": group, "pipeline": pipeline, "prior": prior, "universe_now": [env.cur(c) for c in COLS], "value": exp}, "observed": obs, "where": [group, _j(args), _j(pipeline), prior]})
    return (n, skipped, viols[:30], len(viols))


def _j(x):
    return json.loads(json.dumps(x, default=lambda o: None if (isinstance(o, float) and o != o) else str(o)).replace("NaN", "null"))


def _unj(args):
    h = tuple(args[0])
    c = tuple(NAN if v is None else v for v in args[1])
    return (h, c) + ((args[2],) if len(args) > 2 else ())


def named_case(item):
    from . import _named

    return _named.named_case(item)


def replay(case):
    if case.get("kind") == "named":
        return named_case(tuple(case["where"]))[1]
    group, args, pipeline, prior = case["where"]
    pl = [(p[0], tuple(tuple(x) if isinstance(x, list) else x for x in p[1])) for p in pipeline]
    return chunk_case([(group, _unj(args), pl, prior)])[2]


def run(ctx):
    ctx.rule = "universes from the cell alphabet {NaN,-1,0,1,2}^3 x listing histories x algo parameters x prior temp contents, and pipelines of <= 3 selection algos, each on a real Strategy; statistic / signal tables handed to a real Backtest by name (aligned, sparse, late-starting, longer than the data) x lags; a case is non-trivial if it lies in the documented domain and was executed"
    ctx.assumptions += [
        "include_no_data=True together with include_negative=False is not defined by the documentation and is not judged",
        "top-n is judged relationally (size, pool, every chosen >= every rejected, sorted) so ties cannot raise alarms; random selection by size/subset/reproducibility",
        "a total return whose first price is zero is not defined",
    ]
    cs = cases(ctx.tier, ctx.seed)
    chunks = [cs[i : i + 150] for i in range(0, len(cs), 150)]
    kinds = ["py"] if ctx.tier == "quick" else ["py", "cy"]
    ctx.bounds = {"cases": len(cs), "builds": kinds}
    groups = {}
    for g in cs:
        groups[g[0]] = groups.get(g[0], 0) + 1
    ctx.extra["cases_per_algo"] = groups
    for kind in kinds:
        tot = sk = 0
        for item, (n, skipped, viols, nv) in ctx.run(kind, MOD, "chunk_case", chunks, chunksize=1):
            tot += n
            sk += skipped
            for v in viols:
                ctx.violation(dict(v, build=kind, module=MOD, case={"where": v["where"]}))
        ctx.add(states=tot, transitions=tot, traces_validated_against_impl=tot, evaluations=tot)
        ctx.nontrivial_count += tot
        ctx.extra.setdefault("executed", []).append({"build": kind, "judged": tot, "outside_documented_domain": sk})
    named = [(k, v, lag) for k in ("stat", "where") for v in ("aligned", "sparse", "late_start", "longer", "intraday") for lag in ((0, 1, 2, 3) if k == "stat" else (0,))]
    for kind in kinds:
        for item, (n, viols) in ctx.run(kind, MOD, "named_case", named, chunksize=1):
            ctx.add(states=1, transitions=n, traces_validated_against_impl=n, evaluations=n)
            ctx.nontrivial_count += 1
            for v in viols:
                ctx.violation(dict(v, build=kind, module=MOD, case={"kind": "named", "where": list(item)}))
    ctx.bounds["named_table_backtests"] = len(named)
    ctx.sample({"algo": cs[10][0], "pipeline": _j(cs[10][2]), "universe": _j(cs[10][1])})
    ctx.sample({"algo": cs[-1][0], "pipeline": _j(cs[-1][2]), "universe": _j(cs[-1][1])})
