"""C15 - weighting algos produce the documented weights.

Explorer: `product` over selections x return tables x now x lookback x lag x limits / bounds /
targets x current portfolios; oracle: formulas and relations recomputed with numpy only."""
import itertools
import json
import math

import numpy as np
import pandas as pd

from .. import rt

MOD = "btmc.props.c15"

COLS = ["a", "b", "c"]
N = 14


def prices(kind):
    """non-degenerate price paths built from an alphabet of daily returns"""
    rets = {
        "t1": {"a": [0.25, -0.125, 0.5, -0.25, 0.125, 0.0, 0.25, -0.125, 0.0625, -0.25, 0.5, 0.125, -0.125], "b": [0.0625, 0.0625, -0.0625, 0.125, -0.125, 0.0625, 0.0, 0.03125, -0.0625, 0.0625, 0.125, -0.03125, 0.0625], "c": [-0.5, 0.5, 0.25, -0.25, 0.5, -0.125, -0.25, 0.25, 0.125, -0.5, 0.25, 0.5, -0.25]},
        "t2": {"a": [0.1, -0.05, 0.02, 0.03, -0.07, 0.04, 0.01, -0.02, 0.06, -0.03, 0.02, 0.05, -0.04], "b": [-0.02, 0.03, 0.01, -0.04, 0.05, -0.01, 0.02, 0.03, -0.05, 0.01, -0.02, 0.04, 0.02], "c": [0.2, -0.15, 0.1, 0.05, -0.2, 0.15, -0.1, 0.25, -0.05, 0.1, -0.15, 0.2, 0.05]},
    }["t1" if kind == "t3" else kind]
    out = {}
    for c in COLS:
        x = 8.0 if kind in ("t1", "t3") else 10.0
        path = [x]
        for r in rets[c]:
            x = x * (1.0 + r)
            path.append(x)
        out[c] = path
    idx = pd.bdate_range("2020-01-06", periods=N)
    df = pd.DataFrame(out, index=idx, dtype=float)
    if kind == "t3":
        # a late listing and a one-day gap: statistics are taken on the rows all selected names share
        df.iloc[:4, 2] = float("nan")
        df.iloc[7, 1] = float("nan")
    return df


def target(data, now_i, extra=None, children=None, capital=1024.0):
    bt = rt.bt()
    s = bt.Strategy("s", [], list(children) if children else None)
    s.use_integer_positions(False)
    s.setup(data, **(extra or {}))
    s.adjust(capital)
    for i in range(now_i + 1):
        s.update(data.index[i])
    return s


def window(data, now_i, lookback, lag, cols):
    """rows with labels in [now - lag - lookback, now - lag] (calendar days), as numpy"""
    now = data.index[now_i]
    t0 = now - pd.Timedelta(days=lag)
    lo = t0 - pd.Timedelta(days=lookback)
    rows = [i for i in range(now_i + 1) if lo <= data.index[i] <= t0]
    return np.array([[data[c].iloc[i] for c in cols] for i in rows], dtype=float)


def returns(p):
    r = p[1:] / p[:-1] - 1.0
    return r[~np.isnan(r).any(axis=1)]  # the common sample


def near(a, b, tol=1e-9):
    return abs(a - b) <= tol * max(1.0, abs(a), abs(b))


def as_dict(w):
    if w is None:
        return None
    if isinstance(w, dict):
        return {k: float(v) for k, v in w.items()}
    return {k: float(v) for k, v in w.items()}


def chunk_case(items):
    viols = []
    n = 0
    for it in items:
        try:
            out = one(it)
        except Exception as e:
            out = [("exception", "no exception", rt.describe(e), None)]
        if out is None:
            continue
        n += 1
        for o in out[:2]:
            what, exp, obs = o[0], o[1], o[2]
            sig = o[3] if len(o) > 3 else None
            viols.append({"rule": "weights_" + what, "expected": {"case": it, "value": exp}, "observed": obs, "sig": sig, "where": it})
    return (n, viols[:30], len(viols))


def one(it):
    bt = rt.bt()
    A = bt.algos
    kind = it[0]
    D = lambda d: pd.DateOffset(days=d)  # noqa: E731
    out = []
    if kind == "equal":
        sel = it[1]
        s = target(prices("t1"), 5)
        algo = A.WeighEqually()
        exp = {x: 1.0 / len(sel) for x in sel}
        for call in range(3):
            s.temp = {"selected": list(sel)}
            algo(s)
            got = as_dict(s.temp["weights"])
            if got != exp:
                out.append(("equal", {"call": call, "weights": exp}, got))
                break
            # downstream algos edit temp['weights'] in place (LimitDeltas, TargetVol do)
            for k in list(s.temp["weights"]):
                s.temp["weights"][k] = s.temp["weights"][k] * 0.5
    elif kind == "specified":
        spec, mut = it[1], it[2]
        s = target(prices("t1"), 5)
        algo = A.WeighSpecified(**spec)
        for call in range(3):
            s.temp = {}
            algo(s)
            got = as_dict(s.temp["weights"])
            if got != spec:
                out.append(("specified", {"call": call, "weights": spec}, got))
                break
            # downstream algos edit temp['weights'] in place (LimitDeltas, TargetVol do)
            if mut == "inplace":
                for k in list(s.temp["weights"]):
                    s.temp["weights"][k] = s.temp["weights"][k] * 0.5
                s.temp["weights"]["zz"] = 1.0
    elif kind == "target":
        tbl, now_i = it[1], it[2]
        data = prices("t1")
        rows = {}
        for i in range(0, N, 2 if tbl == "alternate" else 1):
            rows[data.index[i]] = {"a": 0.25 + 0.0625 * (i % 4), "b": float("nan") if i % 3 == 0 else 0.25, "c": 0.125}
        wt = pd.DataFrame(rows).T
        s = target(data, now_i, {"wt": wt})
        s.temp = {}
        r = A.WeighTarget("wt")(s)
        lab = data.index[now_i]
        if lab in wt.index:
            exp = {k: float(v) for k, v in wt.loc[lab].items() if v == v}
            got = as_dict(s.temp.get("weights"))
            if not r or got != exp:
                out.append(("target", exp, {"result": r, "weights": got}))
        else:
            if r or "weights" in s.temp:
                out.append(("target_no_date", {"result": False, "weights": "unset"}, {"result": r, "weights": as_dict(s.temp.get("weights"))}))
    elif kind == "scale":
        w, sc = it[1], it[2]
        s = target(prices("t1"), 5)
        s.temp = {"weights": dict(w)}
        A.ScaleWeights(sc)(s)
        exp = {k: sc * v for k, v in w.items()}
        got = as_dict(s.temp["weights"])
        if got.keys() != exp.keys() or any(not near(got[k], exp[k], 1e-12) for k in exp):
            out.append(("scale", exp, got))
    elif kind in ("invvol", "erc", "meanvar"):
        tname, sel, now_i, lb, lag = it[1], it[2], it[3], it[4], it[5]
        data = prices(tname)
        s = target(data, now_i)
        s.temp = {"selected": list(sel)}
        if len(sel) >= 2:
            p = window(data, now_i, lb, lag, sel)
            if p.shape[0] < len(sel) + 3:
                return None  # degenerate window: outside what the formulas define
            r = returns(p)
            if r.shape[0] < len(sel) + 2:
                return None
            if np.any(r.std(axis=0, ddof=1) == 0):
                return None
        if kind == "invvol":
            algo = A.WeighInvVol(lookback=D(lb), lag=D(lag))
            # a first use of the same instance with another selection / in-place edits must not matter
            s.temp = {"selected": list(reversed(COLS))}
            try:
                algo(s)
                for k in list(s.temp["weights"].keys()):
                    s.temp["weights"][k] = 0.0
            except Exception:
                pass
            s.temp = {"selected": list(sel)}
            algo(s)
        elif kind == "erc":
            A.WeighERC(lookback=D(lb), lag=D(lag), covar_method=it[6])(s)
        else:
            mv_bounds = tuple(it[6]) if len(it) > 6 else (0.0, 1.0)
            A.WeighMeanVar(lookback=D(lb), lag=D(lag), covar_method="standard", bounds=mv_bounds)(s)
        got = as_dict(s.temp["weights"])
        if len(sel) == 0:
            if got != {}:
                out.append((kind + "_empty", {}, got))
        elif len(sel) == 1:
            if got != {sel[0]: 1.0}:
                out.append((kind + "_single", {sel[0]: 1.0}, got))
        else:
            if sorted(got) != sorted(sel):
                out.append((kind + "_keys", sorted(sel), sorted(got)))
            elif not near(sum(got.values()), 1.0, 1e-6) or (any(v < -1e-9 for v in got.values()) and not (kind == "meanvar" and len(it) > 6 and it[6][0] < 0)):
                out.append((kind + "_simplex", {"sum": 1.0, "nonnegative": True}, got))
            elif kind == "invvol":
                sd = r.std(axis=0, ddof=1)
                inv = 1.0 / sd
                exp = {c: float(inv[i] / inv.sum()) for i, c in enumerate(sel)}
                if any(not near(got[c], exp[c], 1e-9) for c in sel):
                    out.append(("invvol", exp, got))
            elif kind == "erc":
                if it[6] == "standard":
                    cov = np.cov(r, rowvar=False, ddof=1)
                else:
                    import sklearn.covariance

                    cov = sklearn.covariance.ledoit_wolf(r)[0]
                w = np.array([got[c] for c in sel])
                rc = w * cov.dot(w)
                share = rc / rc.sum()
                if not (np.max(np.abs(share - 1.0 / len(sel))) <= 1e-3):
                    out.append(("erc_risk_contributions", {"equal_share": 1.0 / len(sel)}, {"weights": got, "shares": [float(x) for x in share]}))
            else:
                mv_bounds = tuple(it[6]) if len(it) > 6 else (0.0, 1.0)
                if any(not (mv_bounds[0] - 1e-9 <= v <= mv_bounds[1] + 1e-9) for v in got.values()):
                    out.append(("meanvar_bounds", list(mv_bounds), got))
                # the optimiser is ffn's: the algo hands it the window's returns and its own bounds, and keeps what it gets
                import ffn

                ref_w = ffn.calc_mean_var_weights(pd.DataFrame(r, columns=list(sel)), weight_bounds=mv_bounds, covar_method="standard", rf=0.0)
                if any(not near(got[c], float(ref_w[c]), 1e-6) for c in sel):
                    out.append(("meanvar_weights", {c: float(ref_w[c]) for c in sel}, got))
    elif kind == "randomly":
        nsel, bounds, total, seed = it[1], it[2], it[3], it[4]
        sel = COLS[:nsel] if nsel <= 3 else COLS + ["d", "e"][: nsel - 3]
        s = target(prices("t1"), 5)
        s.temp = {"selected": list(sel)}
        rt.seed_rng(seed)
        A.WeighRandomly(bounds=tuple(bounds), weight_sum=total)(s)
        got = as_dict(s.temp["weights"])
        feasible = nsel * bounds[1] >= total and nsel * bounds[0] <= total and bounds[1] >= bounds[0]
        if nsel == 0:
            feasible = total == 0
        if not feasible:
            if got != {}:
                out.append(("randomly_infeasible", {}, got))
        else:
            if sorted(got) != sorted(sel):
                out.append(("randomly_keys", sorted(sel), sorted(got)))
            elif sel and (not near(sum(got.values()), total, 1e-9) or any(v < bounds[0] - 1e-9 or v > bounds[1] + 1e-9 for v in got.values())):
                out.append(("randomly_bounds_sum", {"bounds": bounds, "sum": total}, got))
    elif kind == "limitweights":
        w, lim = it[1], it[2]
        s = target(prices("t1"), 5)
        s.temp = {"weights": dict(w)}
        A.LimitWeights(lim)(s)
        got = s.temp["weights"]
        got = as_dict(got)
        if len(w) == 0:
            if got != {}:
                out.append(("limit_empty", {}, got))
        elif lim < 1.0 / len(w):
            if got != {}:
                out.append(("limit_infeasible", {}, got))
        else:
            bad = any(v != v for v in got.values())
            if sorted(got) != sorted(w) or bad or any(v > lim + 1e-9 for v in got.values()) or not near(sum(got.values()), sum(w.values()), 1e-9):
                sig = None
                nan_keys = [k for k, v in got.items() if v != v]
                if bad and sorted(got) == sorted(w) and all(w[k] == 0.0 for k in nan_keys) and all(got[k] <= lim + 1e-9 for k in got if k not in nan_keys):
                    # ffn.limit_weights: the excess is spread over the under-cap weights in proportion
                    # to themselves; when those are all zero (possibly after a recursion step) 0/0
                    sig = "limit_weights|nan|on zero-weight entries only"
                out.append(("limit", {"cap": lim, "total": sum(w.values())}, got, sig))
            else:
                # weights within the cap and no excess anywhere: untouched
                if all(v <= lim for v in w.values()) and any(not near(got[k], w[k], 1e-12) for k in w):
                    out.append(("limit_untouched", w, got))
    elif kind == "limitdeltas":
        held, tw, lim = it[1], it[2], it[3]
        data = prices("t1")
        s = target(data, 5, children=COLS)
        for k, wgt in held.items():
            s.rebalance(wgt, k, base=1024.0, update=False)
        s.update(s.now)
        live = {k: float(c.weight) for k, c in s.children.items()}
        if len(it) > 4 and it[4] == "pending_flow":
            # capital flowed in earlier in the same bar and nothing was read since: the weights the
            # algo must start from are those of the refreshed tree
            v0 = float(s.value)
            s.adjust(512.0)
            live = {k: w * v0 / (v0 + 512.0) for k, w in live.items()}
        s.temp = {"weights": dict(tw)}
        A.LimitDeltas(lim)(s)
        got = as_dict(s.temp["weights"])
        for k in sorted(set(live) | set(tw)):
            cur = live.get(k, 0.0)
            tgt = tw.get(k, 0.0)
            l = lim if not isinstance(lim, dict) else lim.get(k)
            new = got.get(k, 0.0) if k in got else (0.0 if k not in tw else None)
            if l is None or abs(tgt - cur) <= l + 1e-12:
                # within the limit (or no limit for this ticker): the target is untouched
                if k in tw and not near(got.get(k, float("nan")), tgt, 1e-12):
                    out.append(("delta_untouched", {k: tgt}, {k: got.get(k)}))
                if k not in tw and k in got and not near(got[k], cur + math.copysign(l, tgt - cur) if l is not None else 0.0, 1e-9) and abs(tgt - cur) > 1e-12:
                    out.append(("delta_added", "no entry", {k: got[k]}))
            else:
                exp = cur + math.copysign(l, tgt - cur)
                if k not in got or not near(got[k], exp, 1e-9):
                    out.append(("delta_limited", {k: exp, "live": cur, "target": tgt, "limit": l}, {k: got.get(k)}))
    elif kind == "targetvol":
        tname, w, now_i, lb, lag, tv = it[1], it[2], it[3], it[4], it[5], it[6]
        data = prices(tname)
        cols = list(w)
        p = window(data, now_i, lb, lag, cols)
        if p.shape[0] < len(cols) + 3:
            return None
        s = target(data, now_i)
        s.temp = {"weights": dict(w)}
        A.TargetVol(tv, lookback=D(lb), lag=D(lag))(s)
        got = as_dict(s.temp["weights"])
        r = returns(p)
        cov = np.atleast_2d(np.cov(r, rowvar=False, ddof=1))
        wv = np.array([got[c] for c in cols])
        vol = math.sqrt(float(wv.dot(cov).dot(wv)) * 252)
        if not near(vol, tv, 1e-9):
            out.append(("targetvol", {"ex_ante_vol": tv}, {"weights": got, "ex_ante_vol": vol}))
        w0 = np.array([w[c] for c in cols])
        if not np.all(np.abs(wv / w0 - wv[0] / w0[0]) <= 1e-9):
            out.append(("targetvol_not_proportional", w, got))
    elif kind == "pte":
        held, tw, now_i, lb, lag, capfac = it[1], it[2], it[3], it[4], it[5], it[6]
        data = prices("t2")
        tgt_frame = pd.DataFrame({k: [v] * N for k, v in tw.items()}, index=data.index)
        s = target(data, now_i, children=COLS, capital=1.0e6)
        for k, wgt in held.items():
            s.rebalance(wgt, k, base=1.0e6, update=False)
        s.update(s.now)
        live = {k: float(c.weight) for k, c in s.children.items() if k in held}
        cols = list(live) + [k for k in tw if k not in live]
        active = np.array([live.get(c, 0.0) - tw.get(c, 0.0) for c in cols])
        p = window(data, now_i, lb, lag, cols)
        if p.shape[0] < len(cols) + 3:
            return None
        cov = np.atleast_2d(np.cov(returns(p), rowvar=False, ddof=1))
        te = math.sqrt(max(0.0, float(active.dot(cov).dot(active))) * 252)
        if te < 1e-9:
            return None
        cap = te * capfac
        algo = A.PTE_Rebalance(cap, tgt_frame, lookback=D(lb), lag=D(lag))
        got = bool(algo(s))
        exp = te > cap
        if got != exp:
            out.append(("pte_trigger", {"tracking_error_vol": te, "cap": cap, "fires": exp}, got))
    else:
        raise KeyError(kind)
    return out


def cases(tier, seed):
    out = []
    for sel in ([], ["a"], ["a", "b"], ["c", "a", "b"], ["b", "c"]):
        out.append(("equal", sel))
    for spec in ({}, {"a": 1.0}, {"a": 0.5, "b": 0.25}, {"a": 0.75, "b": -0.25}, {"c": 0.125, "a": 0.125, "b": 0.125}):
        for mut in ("none", "inplace"):
            out.append(("specified", spec, mut))
    for tbl in ("alternate", "every"):
        for now_i in range(0, 8):
            out.append(("target", tbl, now_i))
    for w in ({}, {"a": 1.0}, {"a": 0.5, "b": -0.25}):
        for sc in (0.0, 0.5, -1.0, 2.0):
            out.append(("scale", w, sc))
    sels = [[], ["a"], ["a", "b"], ["a", "b", "c"], ["c", "b"]]
    nows = [9, 11, 13] if tier == "quick" else [8, 9, 10, 11, 12, 13]
    lbs = [8, 10, 14, 30] if tier == "quick" else [7, 8, 9, 10, 12, 14, 21, 30]
    lags = [0, 1, 3] if tier == "quick" else [0, 1, 2, 3, 4]
    tables = ["t1", "t2", "t3"]
    for tname in tables:
        for sel in sels:
            for now_i in nows:
                for lb in lbs:
                    for lag in lags:
                        out.append(("invvol", tname, sel, now_i, lb, lag))
                        if lb >= 10:
                            out.append(("erc", tname, sel, now_i, lb, lag, "standard"))
                        if lb >= 14 and lag <= 1:
                            out.append(("erc", tname, sel, now_i, lb, lag, "ledoit-wolf"))
                            out.append(("meanvar", tname, sel, now_i, lb, lag))
                            if lag == 0:
                                out.append(("meanvar", tname, sel, now_i, lb, lag, (-1.0, 1.0)))
    for nsel in (0, 1, 2, 3, 5):
        for bounds in ([0.0, 1.0], [0.25, 0.5], [-0.5, 0.5], [0.0, 0.25], [0.5, 0.25]):
            for total in (1.0, 0.5, 0.0):
                for sd in (0, 1, 2):
                    out.append(("randomly", nsel, bounds, total, sd))
    grid = [i / 8.0 for i in range(0, 9)]
    for n in (1, 2, 3):
        for combo in itertools.product(grid, repeat=n):
            if abs(sum(combo) - 1.0) > 1e-12:
                continue
            w = dict(zip(COLS, combo))
            for lim in (0.25, 1.0 / 3.0, 0.375, 0.5, 0.625, 1.0):
                out.append(("limitweights", w, lim))
    out.append(("limitweights", {}, 0.5))
    helds = [{}, {"a": 0.5}, {"a": 0.5, "b": 0.25}, {"a": -0.25, "b": 0.75}, {"c": 1.0}]
    tws = [{}, {"a": 1.0}, {"a": 0.25, "b": 0.25}, {"b": 0.5, "c": 0.5}, {"a": -0.5}, {"a": 0.5, "b": 0.25}]
    for held in helds:
        for tw in tws:
            for lim in (0.0, 0.125, 0.25, 0.5, 2.0, {"a": 0.125}, {"a": 0.25, "c": 0.125}):
                out.append(("limitdeltas", held, tw, lim))
                if held and not isinstance(lim, dict):
                    out.append(("limitdeltas", held, tw, lim, "pending_flow"))
    for tname in tables[:2]:  # (TargetVol takes pandas' pairwise covariance: tables without gaps)
        for w in ({"a": 1.0}, {"a": 0.5, "b": 0.5}, {"a": 0.25, "b": 0.25, "c": 0.5}, {"a": 0.75, "b": -0.25}, {"c": 0.5, "a": 0.25, "b": 0.25}, {"c": 0.75, "a": 0.25}, {"b": 0.125, "a": 0.875}):
            for now_i in nows:
                for lb in lbs:
                    for lag in lags[:2]:
                        for tv in (0.1, 0.25):
                            out.append(("targetvol", tname, w, now_i, lb, lag, tv))
    for held in ({"b": 0.125}, {"a": 0.5}, {"a": 0.5, "b": 0.25}, {"a": 0.25, "b": 0.25, "c": 0.25}):
        for tw in ({"a": 0.5, "b": 0.5}, {"a": 0.25, "b": 0.25, "c": 0.5}, {"c": 1.0}, {"a": 0.5}):
            for now_i in nows[:2]:
                for lb in (10, 14):
                    for lag in (0, 1):
                        for capfac in (0.5, 0.999, 1.001, 2.0):
                            out.append(("pte", held, tw, now_i, lb, lag, capfac))
    return out


def named_case(item):
    from . import _named

    return _named.named_case(item)


def replay(case):
    if case.get("kind") == "named":
        return named_case(tuple(case["where"]))[1]
    return chunk_case([_unj(case["where"])])[1]


def _unj(it):
    return tuple(it)


def run(ctx):
    ctx.rule = "selections (empty, 1, 2, 3 names) x two return tables x now x lookback x lag; weight vectors on a 1/8 grid x caps; live portfolios reached by real rebalances x targets x limits; bounds x sums x seeds; each on a real Strategy; target-weight tables handed to a real Backtest by name (aligned, sparse, late-starting, longer than the data); a case is non-trivial if the window is non-degenerate and the algo was executed"
    ctx.assumptions += [
        "degenerate windows (fewer than n+3 observations, zero variance) are outside what the formulas define and are not judged",
        "mean-variance weights: keys, sum, bounds only (the optimiser is ffn's); ERC: risk contributions equal within 1e-3 (iterative solver)",
        "covariances recomputed with numpy (ddof=1); Ledoit-Wolf shrinkage by sklearn is trusted",
        "PTE_Rebalance is judged for strategies that hold at least one position (with no position at all it returns True by an explicit shortcut)",
    ]
    cs = cases(ctx.tier, ctx.seed)
    chunks = [cs[i : i + 60] for i in range(0, len(cs), 60)]
    kinds = ["py"] if ctx.tier == "quick" else ["py", "cy"]
    groups = {}
    for c in cs:
        groups[c[0]] = groups.get(c[0], 0) + 1
    ctx.extra["cases_per_algo"] = groups
    ctx.bounds = {"cases": len(cs), "builds": kinds}
    for kind in kinds:
        tot = 0
        for item, (n, viols, nv) in ctx.run(kind, MOD, "chunk_case", chunks, chunksize=1):
            tot += n
            for v in viols:
                ctx.violation(dict(v, build=kind, module=MOD, case={"where": list(v["where"])}))
        ctx.add(states=tot, transitions=tot, traces_validated_against_impl=tot, evaluations=tot)
        ctx.nontrivial_count += tot
    named = [("target", v, 0) for v in ("aligned", "sparse", "late_start", "longer", "intraday")]
    for kind in kinds:
        for item, (n, viols) in ctx.run(kind, MOD, "named_case", named, chunksize=1):
            ctx.add(states=1, transitions=n, traces_validated_against_impl=n, evaluations=n)
            ctx.nontrivial_count += 1
            for v in viols:
                ctx.violation(dict(v, build=kind, module=MOD, case={"kind": "named", "where": list(item)}))
    ctx.bounds["named_table_backtests"] = len(named)
    ctx.sample({"case": list(cs[40])})
    ctx.sample({"case": list(cs[-1])})
