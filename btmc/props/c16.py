"""C16 - bankruptcy is detected, clean and terminal.

Explorer: `product` - all price paths alphabet^n of the shorted ticker x leverage x tree shape x
position mode x commission x rebalancing schedule; oracle: reference value path rebuilt from the
previous end-of-date rows and the input prices."""
import itertools
import json
import math

import numpy as np
import pandas as pd

from .. import ref, rt, tree as T

MOD = "btmc.props.c16"

SPYLOG = []


def build(spec):
    bt = rt.bt()
    A = bt.algos
    path = spec["path"]
    n = 1 + len(path)
    idx = pd.DatetimeIndex(pd.bdate_range("2020-01-06", periods=n))
    scale = spec.get("scale", 1.0)
    pa = [4.0 * scale] + [float(x) * scale for x in path]
    pb = [4.0 * scale] * n if spec.get("bpath") is None else [float(x) * scale for x in spec["bpath"][:n]]
    data = pd.DataFrame({"a": pa, "b": pb}, index=idx)

    class Spy(bt.core.Algo):
        def __call__(self, target):
            SPYLOG.append((target, target.name, str(target.now)))
            return True

    wa, wb = spec["lev"]
    gate = [A.RunOnce()] if spec.get("gate", "once") == "once" else [A.RunDaily()]
    trade = [A.WeighSpecified(a=wa, b=wb), A.Rebalance()]
    tree = spec["tree"]
    fi = spec.get("fi", False)
    addl = None
    if tree == "flatcp":
        # market-value root levered in a coupon-paying security: the sweep decides the sign
        cp = float(spec.get("coupon", 0.0))
        addl = {"coupons": pd.DataFrame({"a": [cp] * n}, index=idx)}
        s = bt.Strategy("r", [Spy()] + gate + trade, [bt.CouponPayingSecurity("a"), bt.Security("b")])
    elif tree == "flat_tx":
        # positions booked by quantity (as ReplayTransactions / RFQ fills do): fractional even in whole-unit mode
        class TxOnce(bt.core.Algo):
            def __call__(self, target):
                v = float(target.value)
                for k, w in (("a", wa), ("b", wb)):
                    if w:
                        q = w * v / float(target.universe[k].iloc[-1])
                        q = math.floor(q) + 0.5
                        target.transact(q, k)
                return True

        s = bt.Strategy("r", [Spy()] + gate + [TxOnce()], [bt.Security("a"), bt.Security("b")])
    elif tree == "flat":
        if fi:
            sec = [bt.Security("a"), bt.Security("b")]
            s = bt.FixedIncomeStrategy("r", [Spy()] + gate + [A.SelectAll()] + trade, children=sec)
        else:
            s = bt.Strategy("r", [Spy()] + gate + trade, ["a", "b"])
    elif tree == "nested":
        cgate = [A.RunMonthly()] if spec.get("gate", "once") == "once" else [A.RunDaily()]
        s1 = bt.Strategy("s1", [Spy()] + cgate + trade, ["a", "b"])
        s = bt.Strategy("r", [Spy()] + gate + [A.WeighSpecified(s1=1.0), A.Rebalance()], [s1])
    elif tree == "nested2":
        cgate = [A.RunMonthly()] if spec.get("gate", "once") == "once" else [A.RunDaily()]
        s1 = bt.Strategy("s1", [Spy()] + cgate + [A.WeighSpecified(a=wa), A.Rebalance()], ["a"])
        s2 = bt.Strategy("s2", [Spy()] + cgate + [A.WeighSpecified(b=1.0), A.Rebalance()], ["b"])
        # the parent itself is levered: short s1, long s2
        s = bt.Strategy("r", [Spy()] + gate + [A.WeighSpecified(s1=abs(wa) / 2.0 if wa < 0 else 0.25, s2=0.5, a=wa / 2.0), A.Rebalance()], [s1, s2, "a"])
    elif tree == "deep":
        cgate = [A.RunMonthly()] if spec.get("gate", "once") == "once" else [A.RunDaily()]
        s11 = bt.Strategy("s11", [Spy()] + cgate + trade, ["a", "b"])
        s1 = bt.Strategy("s1", [Spy()] + cgate + [A.WeighSpecified(s11=1.0), A.Rebalance()], [s11])
        s = bt.Strategy("r", [Spy()] + gate + [A.WeighSpecified(s1=1.0), A.Rebalance()], [s1])
    else:
        raise KeyError(tree)
    fee = T.fee_fn(spec.get("fee"))
    b = bt.Backtest(s, data, initial_capital=float(spec.get("capital", 1024.0)), commissions=fee, integer_positions=bool(spec.get("integer", True)), progress_bar=bool(spec.get("progress_bar", False)), additional_data=addl)
    return b, data


def case(spec):
    bt = rt.bt()
    del SPYLOG[:]
    viols = []
    try:
        b, data = build(spec)
        import contextlib, io

        with contextlib.redirect_stderr(io.StringIO()), contextlib.redirect_stdout(io.StringIO()):
            b.run()
    except Exception as e:
        if rt.classify(e) == "guard":
            return ("refused", [], None)
        return ("crash", [{"rule": "crash", "observed": rt.describe(e)}], None)
    root = b.strategy
    strategies = [n for n in root.members if isinstance(n, bt.core.StrategyBase)]
    secs = [n for n in root.members if isinstance(n, bt.core.SecurityBase)]
    labels = [str(x) for x in root.values.index]
    nd = len(labels)
    if nd != len(data.index) + 1 or str(root.now) != str(data.index[-1]):
        viols.append({"rule": "run_covers_every_date", "expected": {"dates": len(data.index) + 1, "last": str(data.index[-1])}, "observed": {"dates": nd, "now": str(root.now)}})
    cash = {s.full_name: [float(x) for x in s.cash.values] for s in strategies}
    pos = {x.full_name: [float(v) for v in x.positions.values] for x in secs}
    vals = [float(v) for v in root.values.values]
    carry = {x.full_name: [float(c) - float(h) for c, h in zip(x.coupons.values, x.holding_costs.values)] for x in secs if hasattr(x, "coupons")}
    # input prices by ticker and label (row 0 is the synthetic row)
    px = {c: [float("nan")] + [float(v) for v in data[c].values] for c in data.columns}
    S = float(spec.get("capital", 1024.0)) * 8
    tol = 1e-9 * S
    maxpos = max([1.0] + [abs(v) for x in pos.values() for v in x])
    # reference: pre-trade value of date t from the end-of-date rows of t-1 and the prices of t
    first_neg = None
    knife_edge = None
    for t in range(1, nd):
        v = sum(c[t - 1] for c in cash.values())
        for x in secs:
            p0 = pos[x.full_name][t - 1] if t - 1 < len(pos[x.full_name]) else 0.0
            if p0 != 0.0:
                v += p0 * px[x.name][t] * float(x.multiplier)
            if x.full_name in carry and t - 1 < len(carry[x.full_name]):
                v += carry[x.full_name][t - 1]  # coupon less holding cost accrued on t-1, swept on t
        if v < -tol:
            first_neg = (t, v)
            break
        if abs(v) <= tol and knife_edge is None:
            knife_edge = (t, v)  # worth exactly nothing up to float dust: either verdict is right
    spy_root_dates = [d for (tgt, name, d) in SPYLOG if tgt.root is root]
    flagged = bool(root.bankrupt)
    is_fi = bool(root.fixed_income)
    # when was the flag raised?  the first date on which the whole tree is flat although it was not before
    flat_from = None
    for t in range(1, nd):
        if all(abs(pos[x.full_name][t]) <= 1e-9 * maxpos for x in secs if t < len(pos[x.full_name])) and any(abs(pos[x.full_name][t - 1]) > 1e-9 * maxpos for x in secs if t - 1 < len(pos[x.full_name])):
            flat_from = t
            break
    if knife_edge is not None and bool(root.bankrupt) and (first_neg is None or knife_edge[0] < first_neg[0]) and flat_from == knife_edge[0]:
        first_neg = knife_edge  # the library read the dust as negative: judged as a bankruptcy of that date
    if is_fi:
        if flagged:
            viols.append({"rule": "fi_never_flagged", "expected": False, "observed": True})
        return ("ok", viols, ("fi", first_neg is not None))
    if first_neg is None:
        if flagged:
            # admissible only if the costs of that date's own trades drove the value below zero
            t = flat_from
            ok_costs = t is not None and labels[t] in spy_root_dates and vals[t] < tol
            if not ok_costs:
                viols.append({"rule": "flagged_without_negative_value", "expected": {"bankrupt": False, "reference_pre_trade_values": "all >= 0"}, "observed": {"bankrupt": True, "flat_from": labels[flat_from] if flat_from else None}})
        outcome = "solvent"
    else:
        t, v = first_neg
        outcome = "bankrupt@%d" % t
        if not flagged:
            viols.append({"rule": "not_flagged", "expected": {"bankrupt": True, "date": labels[t], "reference_value": v}, "observed": False})
        else:
            # clean: every security of the whole tree is flat on that date, value equals cash
            for x in secs:
                if t < len(pos[x.full_name]) and not (abs(pos[x.full_name][t]) <= 1e-9 * maxpos):
                    viols.append({"rule": "not_liquidated", "expected": {"node": x.full_name, "date": labels[t], "position": 0.0}, "observed": pos[x.full_name][t]})
            tot_cash = sum(c[t] for c in cash.values())
            if not ref.near(vals[t], tot_cash, S):
                viols.append({"rule": "value_is_cash_after_liquidation", "expected": {"date": labels[t], "value": tot_cash}, "observed": vals[t]})
            # terminal: positions zero, value and cash constant, algos not run again
            for u in range(t + 1, nd):
                for x in secs:
                    if u < len(pos[x.full_name]) and not (abs(pos[x.full_name][u]) <= 1e-9 * maxpos):
                        viols.append({"rule": "position_after_bankruptcy", "expected": {"node": x.full_name, "date": labels[u], "position": 0.0}, "observed": pos[x.full_name][u]})
                if not ref.near(vals[u], vals[t], S):
                    viols.append({"rule": "value_changes_after_bankruptcy", "expected": {"date": labels[u], "value": vals[t]}, "observed": vals[u]})
                for name, c in cash.items():
                    if not ref.near(c[u], c[t], S):
                        viols.append({"rule": "cash_changes_after_bankruptcy", "expected": {"node": name, "date": labels[u], "cash": c[t]}, "observed": c[u]})
            late = [d for d in spy_root_dates if d >= labels[t]]
            if late:
                viols.append({"rule": "algos_run_after_bankruptcy", "expected": {"no_calls_from": labels[t]}, "observed": sorted(set(late))[:4]})
            early = [labels[u] for u in range(1, t) if labels[u] not in spy_root_dates]
            if early:
                viols.append({"rule": "algos_not_run_before_bankruptcy", "expected": {"calls_on": early[:3]}, "observed": "no call"})
    # a strategy object that went bankrupt once starts its next backtest unflagged
    if flagged and spec.get("rerun", True) and not viols:
        try:
            del SPYLOG[:]
            calm = pd.DataFrame({c: [4.0] * len(data) for c in data.columns}, index=data.index)
            # fund it so that the (re-used, already liquidated) object starts with positive cash
            b2 = bt.Backtest(root, calm, initial_capital=float(spec.get("capital", 1024.0)) - float(root.capital), integer_positions=bool(spec.get("integer", True)), progress_bar=False, additional_data=({"coupons": pd.DataFrame({"a": [0.0] * len(data)}, index=data.index)} if spec["tree"] == "flatcp" else None))
            b2.run()
            called = sorted(set(d for (tgt, name, d) in SPYLOG if tgt.root is b2.strategy and tgt is b2.strategy))
            want = [str(x) for x in b2.strategy.values.index[1:]]
            if bool(b2.strategy.bankrupt) or called != want:
                viols.append({"rule": "flag_survives_new_backtest", "expected": {"bankrupt": False, "algos_run_on": len(want)}, "observed": {"bankrupt": bool(b2.strategy.bankrupt), "algos_run_on": len(called)}})
        except Exception as e:
            if rt.classify(e) != "guard":
                viols.append({"rule": "crash", "observed": rt.describe(e)})
    for s in strategies:
        if s is not root and bool(s.bankrupt):
            viols.append({"rule": "substrategy_flagged", "expected": False, "observed": {"node": s.full_name}})
    return ("ok", viols[:8], outcome)


def replay(c):
    return case(c["spec"])[1]


def specs(tier, seed):
    out = []
    if tier == "quick":
        alph = [2, 4, 6, 8] if seed % 2 == 0 else [3, 4, 5, 8]
        n = 4
        levs = [(-2.0, 3.0), (-1.5, 2.5), (1.0, 0.0)]
        trees = [("flat", "once"), ("nested", "once"), ("flat", "daily"), ("nested2", "once")]
        modes = [(True, None, 1.0), (False, None, 1.0), (True, "propdec", 1.0), (True, None, 0.825)]
    else:
        alph = [2, 3, 4, 6, 8]
        n = 5
        levs = [(-2.0, 3.0), (-1.5, 2.5), (1.0, 0.0), (-3.0, 4.0)]
        trees = [("flat", "once"), ("nested", "once"), ("flat", "daily"), ("nested2", "once"), ("deep", "once"), ("nested", "daily")]
        modes = [(True, None, 1.0), (False, None, 1.0), (True, "propdec", 1.0), (False, "propdec", 1.0), (True, None, 0.825), (False, "flat", 0.825)]
    for path in itertools.product(alph, repeat=n):
        for lev in levs:
            for tree, gate in trees:
                for integer, fee, scale in modes:
                    if tier == "quick" and (tree != "flat" or gate != "once") and (fee is not None or not integer) and scale == 1.0:
                        continue
                    out.append({"tree": tree, "gate": gate, "lev": list(lev), "path": list(path), "integer": integer, "fee": fee, "scale": scale, "capital": 1024.0})
    # quantities booked by transact: fractional holdings in whole-unit mode at the moment of liquidation
    for path in itertools.product([2, 8], repeat=3):
        for lev in ((-2.0, 3.0), (-1.5, 2.5)):
            for integer in (True, False):
                for fee in (None, "propdec"):
                    out.append({"tree": "flat_tx", "gate": "once", "lev": list(lev), "path": list(path), "integer": integer, "fee": fee, "capital": 1024.0})
    # a quote of exactly zero for two dates while a position is open, then a gap
    for path in ((0, 0, 8, 8), (4, 0, 0, 16), (0, 0, 0, 12), (0, 0, 2, 2), (2, 0, 0, 1)):
        for lev in ((-2.0, 3.0), (-1.5, 2.5), (1.0, 0.0)):
            for tree in ("flat", "nested"):
                for integer in (True, False):
                    out.append({"tree": tree, "gate": "once", "lev": list(lev), "path": list(path), "integer": integer, "fee": None, "scale": 1.0, "capital": 1024.0})
    # with the progress bar switched on (it has a code path of its own around the bankruptcy)
    for path in ((8, 8, 8, 8), (4, 8, 2, 8), (2, 2, 8, 8)):
        for tree in ("flat", "nested"):
            out.append({"tree": tree, "gate": "once", "lev": [-2.0, 3.0], "path": list(path), "integer": True, "fee": None, "scale": 1.0, "capital": 1024.0, "progress_bar": True, "rerun": False})
    # market-value root levered in a coupon-paying security
    for path in itertools.product([4, 5, 6], repeat=3):
        for cp in (1.0, -1.0, 0.25, -2.0):
            for lev in ((-2.0, 3.0), (3.0, -2.0)):
                for integer in (True, False):
                    out.append({"tree": "flatcp", "gate": "once", "lev": list(lev), "path": list(path), "coupon": cp, "integer": integer, "fee": None, "capital": 1024.0})
    # a fixed-income root is never flagged
    for path in itertools.product([2, 8, 16], repeat=3):
        out.append({"tree": "flat", "gate": "once", "lev": [-2.0, 3.0], "path": list(path), "integer": False, "fee": None, "fi": True, "capital": 1024.0})
    return out


def run(ctx):
    ctx.rule = "all price paths alphabet^n of the shorted ticker x leverage x tree (flat, positions inside calendar-gated sub-strategies, levered parent, 3 levels) x schedule x position mode x commission x decimal scaling; non-trivial outcomes are counted per distinct (configuration, outcome date)"
    ctx.assumptions += [
        "reference: pre-trade value of date t = sum of all strategies' cash at t-1 + sum position(t-1) x price(t) x multiplier, from the recorded rows and the input prices",
        "value exactly zero followed by a move is the documented zero-base guard (refused)",
        "'closed' tolerates float dust (1e-9 of the largest position held) but not a unit",
    ]
    sp = specs(ctx.tier, ctx.seed)
    kinds = ["py"] if ctx.tier == "quick" else ["py", "cy"]
    ctx.bounds = {"runs": len(sp), "builds": kinds}
    for kind in kinds:
        use = sp if kind == "py" else sp[::3]
        ok = refused = bankrupt = 0
        for spec, (status, viols, outcome) in ctx.run(kind, MOD, "case", use, chunksize=8):
            ctx.add(transitions=1, traces_validated_against_impl=1, evaluations=1)
            if status == "refused":
                refused += 1
                ctx.add(refused=1)
            if status == "ok":
                ok += 1
                ctx.add(states=1)
                if isinstance(outcome, str) and outcome.startswith("bankrupt"):
                    bankrupt += 1
                ctx.mark((kind, spec["tree"], spec["gate"], tuple(spec["lev"]), spec["integer"], spec["fee"], spec["scale"] if "scale" in spec else 1, str(outcome)))
            for v in viols:
                ctx.violation(dict(v, build=kind, module=MOD, case={"spec": spec}))
        ctx.extra.setdefault("paths", []).append({"build": kind, "runs": len(use), "completed": ok, "refused": refused, "bankruptcies": bankrupt})
        if bankrupt < 50:
            ctx.violation({"rule": "vacuity", "build": kind, "observed": "only %d bankruptcies observed" % bankrupt, "expected": ">= 50"})
    ctx.sample({"spec": sp[len(sp) // 3]})
