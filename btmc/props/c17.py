"""C17 - fixed-income strategies account by notional, coupons and carry.

BFS over TreeDriver operations on fixed-income trees (five security kinds, coupon / holding
cost tables, spreads, commissions) with notional, accrual and additive-index oracles; plus
fixed-income backtests for the renormalised result."""
import math

import numpy as np
import pandas as pd

from .. import alpha, bfs, ledger, ref, rt, tree as T

MOD = "btmc.props.c17"
OBSERVE = True

PAR_KINDS = ("FixedIncomeSecurity", "CouponPayingSecurity")
HEDGE_KINDS = ("HedgeSecurity", "CouponPayingHedgeSecurity")


def table(t, name, ticker):
    fr = t.kw.get(name)
    if fr is None or ticker not in fr.columns:
        return None
    return float(fr[ticker].values[t.i])


def pre(t, op):
    st = ledger.pre(t, op)
    r = t.root
    st["price"] = float(r.price)
    st["notl"] = float(r.notional_value)
    st["prices_len"] = len(r.prices)
    # expected carry of every coupon-paying security on the date being left, from the input tables
    carry = {}
    for name in st["snap"]["__order__"]:
        n = st["snap"][name]
        if n["kind"] == "X" and "coupon" in n:
            tick = n["name"]
            pos = n["position"]
            cp = table(t, "coupons", tick) or 0.0
            if pos > 0:
                hc = pos * (table(t, "cost_long", tick) or 0.0)
            elif pos < 0:
                hc = -pos * (table(t, "cost_short", tick) or 0.0)
            else:
                hc = 0.0
            carry[name] = (pos * cp, hc)
    st["carry"] = carry
    return st


def notional_rules(snap, scale):
    out = []
    for name in snap["__order__"]:
        n = snap[name]
        if n["kind"] == "X":
            if n["cls"] in PAR_KINDS:
                exp = n["position"]
            elif n["cls"] in HEDGE_KINDS:
                exp = 0.0
            else:
                exp = n["position"] * n["price"] * n["mult"] if n["price"] == n["price"] else 0.0
            if not ref.near(n["notl"], exp, scale):
                out.append({"rule": "security_notional", "expected": {"node": name, "kind": n["cls"], "notional": exp}, "observed": n["notl"]})
        else:
            kids = [snap[c] for c in n["children"]]
            exp = sum(abs(k["notl"]) for k in kids)
            if not ref.near(n["notl"], exp, scale):
                out.append({"rule": "strategy_notional", "expected": {"node": name, "notional": exp}, "observed": n["notl"]})
            if n["fi"]:
                for k, cname in zip(kids, n["children"]):
                    if abs(n["notl"]) < 1e-16:
                        ew = 0.0
                    elif abs(n["notl"]) < ref.tol(scale):
                        continue
                    else:
                        ew = k["notl"] / n["notl"]
                    if not ref.near(k["weight"], ew, 1.0):
                        out.append({"rule": "notional_weight", "expected": {"node": cname, "weight": ew}, "observed": k["weight"]})
    return out


def post(t, op, st):
    out = []
    scale = T.gross(t) + 64.0
    s0, s1 = st["snap"], T.snapshot(t)
    out += notional_rules(s1, scale)
    root = s1["__order__"][0]
    is_next = op[0] == "next"
    # coupon / holding cost read-outs equal position x table entry at the current date
    for name in s1["__order__"]:
        n = s1[name]
        if n["kind"] == "X" and "coupon" in n:
            tick = n["name"]
            pos = n["position"]
            cp = table(t, "coupons", tick) or 0.0
            exp_c = pos * cp
            if pos > 0:
                exp_h = pos * (table(t, "cost_long", tick) or 0.0)
            elif pos < 0:
                exp_h = -pos * (table(t, "cost_short", tick) or 0.0)
            else:
                exp_h = 0.0
            if not ref.near(n["coupon"], exp_c, scale):
                out.append({"rule": "coupon_accrual", "expected": {"node": name, "coupon": exp_c, "position": pos}, "observed": n["coupon"]})
            if not ref.near(n["holding_cost"], exp_h, scale):
                out.append({"rule": "holding_cost_accrual", "expected": {"node": name, "holding_cost": exp_h, "position": pos}, "observed": n["holding_cost"]})
    # paid into the parent's cash on the next date, on the end-of-date position
    if is_next:
        trades = ledger.trade_costs(t, ledger.trades_of(t))
        for sname in ledger.strat_names(s1):
            if sname not in s0:
                continue
            swept = sum(c - h for x, (c, h) in st["carry"].items() if s0[x]["parent"] == sname)
            own = sum(c["outlay"] + c["fee"] for c in trades if c["owner"] == sname)
            exp = s0[sname]["capital"] + swept - own
            # transfers between strategies do not happen inside a pure date change
            if not ref.near(s1[sname]["capital"], exp, scale):
                out.append({"rule": "carry_paid_next_date", "expected": {"node": sname, "capital": exp, "carry": swept}, "observed": s1[sname]["capital"]})
    # additive index: index_t = index_{t-1} + 100 * (value_t - value_{t-1} - flows_t) / N
    r = t.root
    prices, values, flows, notls = r.prices, r.values, r.flows, r.notional_values
    i = t.i
    tally = sum(a[2] for a in t.adjust_log if a[0] == i and a[3] and len(a[1]) == 0)
    if len(prices) >= 2:
        p_prev, v_prev, n_prev = float(prices.iloc[-2]), float(values.iloc[-2]), float(notls.iloc[-2])
    else:
        p_prev, v_prev, n_prev = 100.0, 0.0, 0.0
    v_now, n_now = s1[root]["value"], s1[root]["notl"]
    pnl = v_now - v_prev - tally
    if abs(n_prev) > 1e-16:
        exp = p_prev + 100.0 * pnl / n_prev
    elif abs(n_now) > 1e-16:
        exp = p_prev + 100.0 * pnl / n_now
    else:
        exp = p_prev if abs(pnl) < 1e-16 else None
    if exp is not None and bool(r.fixed_income) and not ref.near(s1[root]["price"], exp, 100.0):  # (a market-value root has the multiplicative index, C03)
        out.append({"rule": "additive_index", "expected": {"price": exp, "prev_price": p_prev, "pnl": pnl, "prev_notional": n_prev, "notional": n_now}, "observed": s1[root]["price"]})
    # rebalance(weight, child, base) on a par-weighted child: notional = weight x base, whatever
    # was pending when it was called
    last = op[1][-1] if op[0] == "seq" else op
    if last[0] == "rebbase":
        cname = ">".join(["r"] + list(last[1]) + [last[2]])
        if cname in s1 and s1[cname]["kind"] == "X" and s1[cname]["cls"] in PAR_KINDS:
            tgt = last[3] * last[4]
            if not ref.near(s1[cname]["notl"], tgt, scale):
                out.append({"rule": "rebalance_to_notional", "expected": {"child": cname, "notional": tgt, "base": last[4], "weight": last[3]}, "observed": s1[cname]["notl"]})
    # Rebalance against notional targets
    if op[0] == "algos" and op[3] == "Rebalance" and "weights" in op[2]:
        node = t.node(op[1])
        pname = node.full_name
        base = op[2].get("notional_value")
        if base is None:
            base = s0[pname]["notl"]
        integer = bool(t.spec.get("integer", True))
        for k, w in op[2]["weights"].items():
            cname = pname + ">" + k
            if cname not in s1:
                continue
            c = s1[cname]
            tgt = w * base
            tol = ref.tol(scale)
            if c["kind"] == "X" and c["cls"] not in PAR_KINDS:
                # allocated by value: within its own costs (+ one unit with integer positions)
                below = [x for x in ledger.trade_costs(t, ledger.trades_of(t)) if x["sec"] == cname]
                tol += sum(abs(x["fee"]) + abs(x["friction"]) for x in below)
                if integer:
                    tol += c["price"] * c["mult"] * 1.5 + 2.0
            if c["kind"] == "X" and c["cls"] in HEDGE_KINDS:
                continue
            if c["kind"] == "S" and (cname not in s0 or abs(s0[cname]["notl"]) < 1e-12):
                continue  # a sub-strategy without positions has no child weights to spread notional by
            if not (abs(c["notl"] - tgt) <= tol):
                out.append({"rule": "rebalance_to_notional", "expected": {"child": cname, "notional": tgt, "base": base, "weight": w}, "observed": c["notl"]})
        for cname in s1[pname]["children"]:
            c = s1[cname]
            if c["name"] not in op[2]["weights"] and not (abs(c["notl"]) <= ref.tol(scale)) and c["kind"] == "X":
                out.append({"rule": "non_target_closed", "expected": {"child": cname, "notional": 0.0}, "observed": c["notl"]})
    return out


def replay(case):
    if case.get("driver") == "firun":
        return fi_run_case(case["spec"])[1]
    return bfs.replay_case(MOD, case)


# ----------------------------------------------------------------------
# fixed-income backtests: renormalised result, index on every date


def fi_run_case(spec):
    bt = rt.bt()
    A = bt.algos
    n = 8
    idx = pd.bdate_range("2020-01-06", periods=n)
    al = spec.get("alpha", "exact")
    P = {"f": [1.0, 1.25, 0.75, 1.0, 1.5, 1.0, 0.5, 1.0], "c": [1.0, 1.0, 1.5, 0.5, 1.0, 2.0, 1.0, 1.0], "h": [2.0, 4.0, 2.0, 1.0, 2.0, 4.0, 2.0, 2.0], "e": [4.0, 2.0, 8.0, 4.0, 2.0, 4.0, 4.0, 8.0]}
    if al == "decimal":
        P = {k: [x * 1.013 + 0.007 for x in v] for k, v in P.items()}
    data = pd.DataFrame(P, index=idx, dtype=float)
    coupons = pd.DataFrame({"c": [0.5, 0.0, 0.25, 1.0, 0.125, 0.5, 0.0, 0.25]}, index=idx)
    cl = pd.DataFrame({"c": [0.125, 0.0, 0.125, 0.25, 0.0, 0.125, 0.0, 0.0]}, index=idx)
    cs = pd.DataFrame({"c": [0.25, 0.25, 0.0, 0.5, 0.25, 0.0, 0.125, 0.0]}, index=idx)
    notional = pd.Series(spec["notional"][:n], index=idx, dtype=float)
    if spec.get("notional_gaps"):
        # nothing scheduled on some dates: the stack stops at SetNotional there
        notional = notional.drop([idx[k] for k in spec["notional_gaps"]])
    w = spec["weights"]
    stack = [A.RunDaily() if spec.get("gate", "daily") == "daily" else A.RunWeekly(), A.SetNotional("notional"), A.WeighSpecified(**w), A.Rebalance()]
    kids = [bt.FixedIncomeSecurity("f"), bt.CouponPayingSecurity("c"), bt.HedgeSecurity("h"), bt.Security("e")]
    s = bt.FixedIncomeStrategy("r", stack, children=kids)
    ad = {"coupons": coupons, "cost_long": cl, "cost_short": cs, "notional": notional}
    if spec.get("spread") is not None:
        ad["bidoffer"] = pd.DataFrame(float(spec["spread"]), index=idx, columns=data.columns)
    b = bt.Backtest(s, data, initial_capital=float(spec.get("capital", 0.0)), commissions=T.fee_fn(spec.get("fee")), integer_positions=bool(spec.get("integer", False)), progress_bar=False, additional_data=ad)
    viols = []
    try:
        b.run()
    except Exception as e:
        if rt.classify(e) == "guard":
            return ("refused", [], 0)
        return ("crash", [{"rule": "crash", "observed": rt.describe(e)}], 0)
    r = b.strategy
    vals = [float(x) for x in r.values.values]
    flows = [float(x) for x in r.flows.values]
    notl = [float(x) for x in r.notional_values.values]
    prc = [float(x) for x in r.prices.values]
    S = 1e3
    for i in range(1, len(vals)):
        pnl = vals[i] - vals[i - 1] - flows[i]
        N = notl[i - 1] if abs(notl[i - 1]) > 1e-16 else notl[i]
        if abs(N) > 1e-16:
            exp = prc[i - 1] + 100.0 * pnl / N
            if not ref.near(prc[i], exp, 100.0):
                viols.append({"rule": "additive_index_date", "expected": {"date": str(r.prices.index[i]), "price": exp}, "observed": prc[i]})
    # notional after each rebalance equals the SetNotional value (par kinds trade quantities exactly)
    for i in range(1, len(vals) - 1):  # RunDaily does not fire on the last date by default
        lab = r.values.index[i]
        if spec.get("gate", "daily") == "daily" and not spec.get("integer", False) and all(k in ("f", "c") for k in w):
            if lab not in notional.index:
                continue
            exp = float(notional.loc[lab]) * sum(abs(x) for x in w.values())
            if not ref.near(notl[i], exp, S):
                viols.append({"rule": "notional_follows_setnotional", "expected": {"date": str(lab), "notional": exp}, "observed": notl[i]})
    # the security-weight report of a fixed-income book: recorded notional over the book's notional
    # (a hedge instrument carries no notional: weight zero)
    try:
        sw = b.security_weights
        for k in data.columns:
            if k not in sw.columns:
                continue
            node = r[k] if k in r.children else None
            if node is None:
                continue
            nv = [float(x) for x in node.notional_values.values]
            for i in range(1, len(vals)):
                if abs(notl[i]) < 1e-12 or i >= len(nv):
                    continue
                exp = (0.0 if type(node).__name__ in ("HedgeSecurity", "CouponPayingHedgeSecurity") else nv[i]) / notl[i]
                got = float(sw[k].iloc[i])
                if not ref.near(got, exp, 1.0):
                    viols.append({"rule": "fi_security_weight_report", "expected": {"security": k, "kind": type(node).__name__, "date": str(sw.index[i]), "weight": exp}, "observed": got})
                    break
    except Exception as e:
        viols.append({"rule": "security_weights_raises", "observed": rt.describe(e)})
    # renormalised result: 100 * (1 + cumsum((dV - flows) / v)), first = 100
    for v in (spec.get("norm", 64.0),):
        try:
            res = bt.backtest.RenormalizedFixedIncomeResult(v, b)
            got = [float(x) for x in res.prices.iloc[:, 0].values]
        except Exception as e:
            viols.append({"rule": "renormalized_result_raises", "observed": rt.describe(e)})
            continue
        exp = [100.0]
        acc = 0.0
        for i in range(1, len(vals)):
            acc += (vals[i] - vals[i - 1] - flows[i]) / v
            exp.append(100.0 * (1.0 + acc))
        if any(not ref.near(a, e, 100.0) for a, e in zip(got, exp)) or len(got) != len(exp):
            viols.append({"rule": "renormalized_result", "expected": exp, "observed": got})
    return ("ok", viols[:5], sum(1 for x in notl if abs(x) > 0))


def fi_specs(tier):
    out = []
    ws = [{"f": 0.5, "c": 0.5}, {"f": 0.75, "c": -0.25}, {"c": -1.0}, {"f": 0.5, "e": 0.25}, {"f": 0.25, "c": 0.25, "h": 0.5}]
    notionals = [[64.0] * 8, [64.0, 64.0, 128.0, 128.0, 32.0, 32.0, 64.0, 64.0], [16.0, 32.0, 48.0, 64.0, 80.0, 96.0, 112.0, 128.0]]
    for w in ws:
        for nt in notionals:
            for gate in ("daily", "weekly"):
                for fee, spread in ((None, None), ("prop", None), (None, 0.25), ("pershare", 0.5)):
                    for integer in (False, True):
                        if tier == "quick" and (integer and fee is not None):
                            continue
                        out.append({"weights": w, "notional": nt, "gate": gate, "fee": fee, "spread": spread, "integer": integer, "norm": 64.0})
    # a book that is wound down to a scheduled notional of exactly zero and re-opened; dates with nothing scheduled
    for w in ws[:3]:
        for nt, gaps in (([64.0, 64.0, 0.0, 0.0, 32.0, 32.0, 0.0, 64.0], None), ([64.0, 128.0, 128.0, 0.0, 32.0, 32.0, 64.0, 64.0], [2, 5]), ([64.0, 64.0, 128.0, 128.0, 32.0, 32.0, 64.0, 64.0], [1, 4])):
            for fee, spread in ((None, None), ("prop", 0.25)):
                out.append({"weights": w, "notional": nt, "notional_gaps": gaps, "gate": "daily", "fee": fee, "spread": spread, "integer": False, "norm": 64.0})
    # a book that is also funded with capital (a flow on the first date)
    out += [dict(s, capital=256.0) for s in out[::5]]
    if tier != "quick":
        out += [dict(s, alpha="decimal", norm=37.5) for s in out[::2]]
    return out


def run(ctx):
    ctx.rule = "BFS over TreeDriver op sequences on the fixed-income trees F1 (five security kinds) and F2 (FI child strategy), states deduplicated by raw instance state; plus fixed-income backtests (weights x notional schedules x gates x costs); a state is non-trivial if it is a distinct reachable state"
    ctx.assumptions += [
        "notional: par kinds = position, Security = market value, hedge kinds = 0, strategy = sum of |child notional|",
        "coupon and holding cost tables, spreads and commissions are the driver's own inputs",
        "securities that are allocated by value (plain Security under an FI parent) reach their notional target within their own costs (+1.5 units with integer positions)",
    ]
    kinds = ["py"] if ctx.tier == "quick" else ["py", "cy"]
    variants = [
        {"integer": False, "fee": None, "spread": None, "mult": {}},
        {"integer": False, "fee": "prop", "spread": 0.5, "mult": {"c": 2}},
        {"integer": True, "fee": "flat", "spread": None, "mult": {}},
        {"integer": True, "fee": None, "spread": 0.25, "mult": {"f": 2}},
    ]
    plan = []
    if ctx.tier == "quick":
        k = ctx.seed % 4
        plan = [("F1", variants[k], 3, "exact"), ("F1", variants[(k + 1) % 4], 2, "exact"), ("F2", variants[(k + 2) % 4], 2, "exact"), ("F1", variants[(k + 3) % 4], 2, "decimal")]
    else:
        for v in variants:
            plan += [("F1", v, 4 if v is variants[0] else 3, "exact"), ("F2", v, 3, "exact"), ("F1", v, 3, "decimal")]
        plan.append(("F1", dict(variants[1], carry=False), 3, "exact"))
    plan.append(("F1", variants[ctx.seed % 2], 2, "zero"))
    plan.append(("F1", dict(variants[(ctx.seed + 1) % 4], carry="short_only" if ctx.seed % 2 == 0 else "long_only"), 2, "exact"))
    plan.append(("F1", variants[1 + (ctx.seed % 2) * 2], 2, "flatspell"))
    # a coupon-paying security marked to market (fixed_income=False) under an ordinary strategy: par notional all the same
    plan.append(("MC", variants[(ctx.seed + 1) % 2], 2, "exact"))
    for shape, v, depth, al in plan:
        spec = dict(v, shape=shape, alpha=al, capital=64.0, ndates=4)
        if al == "flatspell":
            # the book was held, then went completely flat for a date: the index's denominator
            # must not remember the notional from before
            spec["alpha"] = "exact"
            spec["preops"] = [["transact", [], "f", 8.0], ["transact", [], "h", 2.0], ["next"], ["flatten", []]]
        if al == "zero":
            # positions are open while their mark sits at exactly zero (swap-like securities)
            spec["alpha"] = "exact"
            spec["prices"] = {"c": [1.0, 0.0, 1.5, 0.5], "h": [2.0, 0.0, 2.0, 1.0]}
            spec["preops"] = [["transact", [], "c", 8.0], ["transact", [], "h", 2.0], ["next"]]
        if shape == "MC":
            from . import _ledger_run

            ops = _ledger_run.ops_for("C17", "MC", spec)
        else:
            ops = alpha.fi_ops(shape)
        for kind in kinds:
            bfs.search(ctx, kind, MOD, spec, ops, depth if kind == "py" else max(2, depth - 1), label="%s/%s/%s/%s" % (shape, al, "int" if v["integer"] else "frac", kind))
    specs = fi_specs(ctx.tier)
    for kind in kinds:
        ok = 0
        for spec, (status, viols, nn) in ctx.run(kind, MOD, "fi_run_case", specs, chunksize=4):
            ctx.add(transitions=1, traces_validated_against_impl=1, evaluations=1)
            if status == "ok":
                ok += 1
                ctx.add(states=1)
                if nn:
                    ctx.nontrivial_count += 1
            for v in viols:
                ctx.violation(dict(v, build=kind, module=MOD, case={"driver": "firun", "spec": spec}))
        ctx.extra.setdefault("fi_backtests", []).append({"build": kind, "runs": len(specs), "completed": ok})
    ctx.sample({"fi_backtest": specs[3]})
