"""C18 - reports agree with the node histories they summarise.

Every finished run of the run family (flat, nested, shared tickers, shorts, no trades, bid/offer
on/off, multipliers, runs whose root value goes negative): each report is recomputed from the
node histories only; transactions are replayed through ReplayTransactions."""
import math

import numpy as np
import pandas as pd

from .. import ledger, ref, rt, runcheck, runfam as R, tree as T
from . import c16

MOD = "btmc.props.c18"


def frame_of(df):
    return {str(c): {str(i): float(v) for i, v in zip(df.index, df[c].values)} for c in df.columns}


def close(a, b, scale=1.0):
    if a != a or b != b:
        return (a != a) and (b != b)
    if math.isinf(a) or math.isinf(b):
        return a == b
    return abs(a - b) <= 1e-9 * max(1.0, abs(a), abs(b), scale)


def check_reports(b, hist, spec, data, fee_name):
    bt = rt.bt()
    out = []
    root = b.strategy
    rn = R.node_path(root)
    labels = hist[rn]["values"][0]
    fi = bool(root.fixed_income)
    base_series = "notional_values" if fi else "values"
    rv = dict(zip(labels, hist[rn][base_series][1]))

    def add(rule, exp, obs, sig=None):
        if len(out) < 12:
            out.append({"rule": rule, "expected": exp, "observed": obs, "sig": sig})

    # component weights
    try:
        w = frame_of(b.weights)
        for name, h in hist.items():
            vals = dict(zip(h[base_series][0], h[base_series][1]))
            col = w.get(name)
            if col is None:
                add("weights_missing_column", name, sorted(w))
                continue
            for lab in labels:
                exp = vals.get(lab, float("nan")) / rv[lab] if rv[lab] != 0 else float("nan")
                got = col.get(lab, float("nan"))
                if rv[lab] != 0 and not close(got, exp):
                    add("component_weight", {"node": name, "date": lab, "weight": exp}, got)
                    break
    except Exception as e:
        add("report_raises", "weights", rt.describe(e))
    # security weights (+ cash fractions sum to one), positions per ticker
    secs = [n for n in hist if hist[n]["__kind__"] == "X"]
    strats = [n for n in hist if hist[n]["__kind__"] == "S"]
    tickers = sorted(set(n.split(">")[-1] for n in secs))
    try:
        sw = frame_of(b.security_weights) if secs else {}
        for tk in tickers:
            for lab in labels:
                tot = 0.0
                for n in secs:
                    if n.split(">")[-1] == tk:
                        vals = dict(zip(hist[n][base_series][0], hist[n][base_series][1]))
                        tot += vals.get(lab, 0.0)
                if rv[lab] == 0:
                    continue
                exp = tot / rv[lab]
                got = sw.get(tk, {}).get(lab, float("nan"))
                if not close(got, exp):
                    add("security_weight", {"ticker": tk, "date": lab, "weight": exp}, got)
                    break
        if not fi and secs:
            for lab in labels:
                if rv[lab] == 0:
                    continue
                tot = sum(sw.get(tk, {}).get(lab, 0.0) for tk in tickers)
                cashf = sum(dict(zip(hist[s]["cash"][0], hist[s]["cash"][1])).get(lab, 0.0) for s in strats) / rv[lab]
                if not close(tot + cashf, 1.0):
                    add("security_weights_plus_cash", {"date": lab, "sum": 1.0}, tot + cashf)
                    break
    except Exception as e:
        add("report_raises", "security_weights", rt.describe(e))
    try:
        pos = frame_of(b.positions) if secs else {}
        for tk in tickers:
            for lab in labels:
                tot = 0.0
                for n in secs:
                    if n.split(">")[-1] == tk:
                        tot += dict(zip(hist[n]["positions"][0], hist[n]["positions"][1])).get(lab, 0.0)
                got = pos.get(tk, {}).get(lab, float("nan"))
                if not close(got, tot):
                    add("positions_per_ticker", {"ticker": tk, "date": lab, "position": tot}, got)
                    break
    except Exception as e:
        add("report_raises", "positions", rt.describe(e))
    # herfindahl, turnover
    try:
        if secs:
            hh = b.herfindahl_index
            hhd = {str(i): float(v) for i, v in zip(hh.index, hh.values)}
            for lab in labels:
                if rv[lab] == 0:
                    continue
                exp = sum((sw.get(tk, {}).get(lab, 0.0)) ** 2 for tk in tickers)
                ex2 = 0.0
                for tk in tickers:
                    tot = sum(dict(zip(hist[n][base_series][0], hist[n][base_series][1])).get(lab, 0.0) for n in secs if n.split(">")[-1] == tk)
                    ex2 += (tot / rv[lab]) ** 2
                if not close(hhd.get(lab, float("nan")), ex2):
                    add("herfindahl", {"date": lab, "hhi": ex2}, hhd.get(lab))
                    break
    except Exception as e:
        add("report_raises", "herfindahl_index", rt.describe(e))
    try:
        if secs:
            to = b.turnover
            tod = {str(i): float(v) for i, v in zip(to.index, to.values)}
            vv = dict(zip(labels, hist[rn]["values"][1]))
            for lab in labels:
                posv = negv = 0.0
                for tk in tickers:
                    o = sum(dict(zip(hist[n]["outlays"][0], hist[n]["outlays"][1])).get(lab, 0.0) for n in secs if n.split(">")[-1] == tk)
                    if o >= 0:
                        posv += o
                    else:
                        negv += -o
                if vv[lab] == 0:
                    continue
                exp = min(posv, negv) / vv[lab]
                if not close(tod.get(lab, float("nan")), exp):
                    add("turnover", {"date": lab, "turnover": exp}, tod.get(lab))
                    break
    except Exception as e:
        add("report_raises", "turnover", rt.describe(e))
    # Result prices = strategy index
    try:
        res = bt.backtest.Result(b)
        rp = res.prices.iloc[:, 0]
        got = {str(i): float(v) for i, v in zip(rp.index, rp.values)}
        idx = dict(zip(hist[rn]["prices"][0], hist[rn]["prices"][1]))
        for lab in labels:
            if not close(got.get(lab, float("nan")), idx[lab], 100.0):
                add("result_prices", {"date": lab, "price": idx[lab]}, got.get(lab))
                break
    except Exception as e:
        res = None
        add("report_raises", "Result", rt.describe(e))
    # transactions
    tx = None
    try:
        if res is not None:
            tx = res.get_transactions()
    except Exception as e:
        sig = "get_transactions|no-securities-in-tree|" + type(e).__name__ if not secs else None
        add("report_raises", "get_transactions", rt.describe(e), sig)
    if tx is not None and secs:
        spread = spec.get("spread")
        qty = {}
        for (d, s), row in tx.iterrows():
            qty.setdefault(s, {})[str(d)] = (float(row["quantity"]), float(row["price"]))
        mults = {}
        for n in secs:
            mults.setdefault(n.split(">")[-1], set()).add(hist[n]["__mult__"])
        dlabels = [str(x) for x in data.index]
        for tk in tickers:
            run = 0.0
            nholders = sum(1 for n in secs if n.split(">")[-1] == tk)
            for lab in labels:
                tot = sum(dict(zip(hist[n]["positions"][0], hist[n]["positions"][1])).get(lab, 0.0) for n in secs if n.split(">")[-1] == tk)
                q, px = qty.get(tk, {}).get(lab, (0.0, None))
                run += q
                if not close(run, tot, abs(tot)):
                    add("transactions_cumulate_to_positions", {"ticker": tk, "date": lab, "position": tot}, run)
                    break
                if px is not None and lab in dlabels and abs(q) <= 1e-6 * max(1.0, abs(tot)):
                    continue  # float-dust trade: quantity = difference of two large positions, the per-unit price is ill-conditioned
                if px is not None and lab in dlabels:
                    mid = float(data[tk].values[dlabels.index(lab)])
                    # execution price: mid +/- half the spread (single holder: one trade direction)
                    if nholders == 1 and all(hist[n]["__parent__"] == rn for n in secs):
                        exp = mid + (0.5 * spread * (1 if q > 0 else -1) if spread else 0.0)
                        if not close(px, exp):
                            m = sorted(mults[tk])[0]
                            sig = "txn_price|spread_scaled_by_multiplier|m=%s" % m if (spread and m != 1.0 and close(px, mid + 0.5 * spread * m * (1 if q > 0 else -1))) else None
                            add("transaction_price", {"ticker": tk, "date": lab, "price": exp, "mid": mid, "spread": spread}, px, sig)
                            break
                    else:
                        # several holders of one ticker: total spread paid / net quantity
                        paid = sum(dict(zip(hist[n]["bidoffers_paid"][0], hist[n]["bidoffers_paid"][1])).get(lab, 0.0) / hist[n]["__mult__"] for n in secs if n.split(">")[-1] == tk and "bidoffers_paid" in hist[n])
                        exp = mid + (paid / q if q else 0.0)
                        if not close(px, exp):
                            sig = "txn_price|shared_ticker_spread_lost" if spread else None
                            add("transaction_price", {"ticker": tk, "date": lab, "price": exp, "mid": mid, "holders": nholders}, px, sig)
                            break
    return out, tx


def replay_transactions(b, hist, spec, data, tx, info):
    """feed get_transactions() to a ReplayTransactions strategy over the same data"""
    bt = rt.bt()
    out = []
    secs = [n for n in hist if hist[n]["__kind__"] == "X"]
    if tx is None or not secs or len(tx) == 0 or bool(b.strategy.fixed_income):
        return out  # (a fixed income book is not funded with capital: no market-value replay)
    tickers = sorted(set(n.split(">")[-1] for n in secs))
    mult = {}
    for n in secs:
        mult[n.split(">")[-1]] = hist[n]["__mult__"]
    if any(len(set(hist[n]["__mult__"] for n in secs if n.split(">")[-1] == tk)) > 1 for tk in tickers):
        return out
    kids = [bt.Security(tk, multiplier=mult[tk]) for tk in tickers]
    s = bt.Strategy("replay", [bt.algos.ReplayTransactions("transactions")], kids)
    ad = {"transactions": tx, "bidoffer": pd.DataFrame(0.0, index=data.index, columns=data.columns)}
    flat = all(hist[n]["__parent__"] == R.node_path(b.strategy) for n in secs)
    fee = T.fee_fn(spec.get("fee")) if flat else None
    try:
        b2 = bt.Backtest(s, data, initial_capital=float(spec.get("capital", 1e6)), commissions=fee, integer_positions=False, progress_bar=False, additional_data=ad)
        b2.run()
    except Exception as e:
        return [{"rule": "replay_raises", "expected": "replay completes", "observed": rt.describe(e)}]
    labels = hist[R.node_path(b.strategy)]["values"][0]
    for tk in tickers:
        p2 = dict(zip([str(x) for x in b2.strategy[tk].positions.index], [float(x) for x in b2.strategy[tk].positions.values]))
        for lab in labels:
            tot = sum(dict(zip(hist[n]["positions"][0], hist[n]["positions"][1])).get(lab, 0.0) for n in secs if n.split(">")[-1] == tk)
            if not close(p2.get(lab, 0.0), tot, abs(tot)):
                out.append({"rule": "replay_positions", "expected": {"ticker": tk, "date": lab, "position": tot}, "observed": p2.get(lab)})
                break
    fl = (spec.get("stack") or {}).get("flow")
    if flat and fl is None and not out:
        v1 = dict(zip(labels, hist[R.node_path(b.strategy)]["values"][1]))
        v2 = dict(zip([str(x) for x in b2.strategy.values.index], [float(x) for x in b2.strategy.values.values]))
        for lab in labels:
            if not close(v2.get(lab, float("nan")), v1[lab], abs(v1[lab])):
                out.append({"rule": "replay_values", "expected": {"date": lab, "value": v1[lab]}, "observed": v2.get(lab)})
                break
    return out


def run_case(spec):
    res = runcheck.execute(spec)
    if res["status"] == "guard":
        return ("refused", [], None)
    if res["status"] == "crash":
        return ("refused", [], None)  # a run that does not complete is C10's business, there is no report to check
    b, hist, info = res["b"], res["hist"], res["info"]
    viols, tx = check_reports(b, hist, spec, info["data"], spec.get("fee"))
    viols += replay_transactions(b, hist, spec, info["data"], tx, info)
    return ("ok", viols, len(res["trades"]))


def bankrupt_case(spec):
    """reports on runs whose root value goes negative (C16's family)"""
    bt = rt.bt()
    try:
        b, data = c16.build(spec)
        b.run()
    except Exception as e:
        if rt.classify(e) == "guard":
            return ("refused", [], None)
        return ("crash", [{"rule": "crash", "observed": rt.describe(e)}], None)
    hist = R.run_histories(b)
    sp = dict(spec, capital=spec.get("capital", 1024.0), stack={})
    viols, tx = check_reports(b, hist, sp, data, spec.get("fee"))
    neg = any(v < 0 for v in hist[R.node_path(b.strategy)]["values"][1])
    return ("ok", viols, 1 if neg else 0)


def fresh_report_case(item):
    """a report read FIRST on a finished backtest (nothing else has been read): the positions report has
    every date and agrees with the node histories read afterwards - also for a ticker that was closed for
    good well before the end; a Result over several backtests of ONE strategy hands out each backtest's own
    transaction list by backtest name"""
    import pandas as pd

    bt = rt.bt()
    A = bt.algos
    what, closed, integer = item
    data = R.table("d12", "exact", late=False)
    idx = data.index
    closes = pd.DataFrame({"date": [idx[3]]}, index=[closed])

    def strategy():
        return bt.Strategy("s", [A.ClosePositionsAfterDates("closes"), A.RunWeekly(), A.SelectAll(), A.SelectActive(), A.WeighEqually(), A.Rebalance()], [bt.Security(c) for c in data.columns])

    viols = []
    if what == "positions_first":
        b = bt.Backtest(strategy(), data, integer_positions=integer, progress_bar=False, additional_data={"closes": closes})
        b.run()
        rep = b.positions  # the very first read
        got = {str(c): ([str(x) for x in rep.index], [float(x) for x in rep[c].values]) for c in rep.columns}
        hist = R.run_histories(b)
        labels = hist["s"]["values"][0]
        for c in data.columns:
            exp = hist["s>" + c]["positions"][1]
            g = got.get(c)
            if g is None or g[0] != labels or any(not (abs(x - y) <= 1e-9 or (x != x and y != y)) for x, y in zip(g[1], exp)):
                viols.append({"rule": "positions_report_read_first", "expected": {"ticker": c, "dates": len(labels), "positions": exp}, "observed": None if g is None else {"dates": len(g[0]), "positions": g[1]}})
                break
    else:
        s = strategy()
        b1 = bt.Backtest(s, data, name="other", initial_capital=5e5, integer_positions=integer, progress_bar=False, additional_data={"closes": closes})
        b2 = bt.Backtest(s, data, initial_capital=1e6, integer_positions=integer, progress_bar=False, additional_data={"closes": closes})
        import contextlib, io

        with contextlib.redirect_stderr(io.StringIO()):
            res = bt.run(b1, b2)
        for name, b in (("other", b1), ("s", b2)):
            exp = b.strategy.get_transactions()
            got = res.get_transactions(name)
            e = [(str(k[0]), str(k[1]), float(r["price"]), float(r["quantity"])) for k, r in exp.iterrows()]
            g = [(str(k[0]), str(k[1]), float(r["price"]), float(r["quantity"])) for k, r in got.iterrows()]
            if e != g:
                viols.append({"rule": "result_transactions_by_backtest_name", "expected": {"backtest": name, "transactions": e[:4], "count": len(e)}, "observed": {"transactions": g[:4], "count": len(g)}})
                break
    return ("ok", viols, 1)


def replay(case):
    if case.get("driver") == "fresh_report":
        return fresh_report_case(tuple(case["item"]))[1]
    if case.get("driver") == "bankrupt":
        return bankrupt_case(case["spec"])[1]
    return run_case(case["spec"])[1]


def run(ctx):
    ctx.rule = "every finished run of the run family (all stock algos; flat / nested / shared tickers / 3 levels; spreads, commissions, multipliers) plus runs whose root value goes negative; the positions report read before anything else; a Result over two backtests of one strategy queried by backtest name; a run is non-trivial if it executed at least one trade"
    ctx.assumptions += [
        "reports are recomputed from the recorded node histories only; execution price = mid +/- half spread per unit",
        "round trip: positions always; values on flat trees without flows (nested trees net several holders' trades of one ticker)",
    ]
    fam = R.family(ctx.tier, ctx.seed)
    # make sure multipliers x spreads and shared tickers x spreads are present
    extra = []
    for st in R.stacks("quick")[:12]:
        extra.append({"tree": "flat_eager_m", "stack": st, "data": "d12", "alpha": "exact", "integer": False, "capital": 1e6, "rng": 0, "fee": None, "spread": 0.5})
        extra.append({"tree": "nested", "stack": st, "data": "d12", "alpha": "exact", "integer": False, "capital": 1e6, "rng": 0, "fee": None, "spread": 0.5})
        extra.append({"tree": "deep_dup", "stack": st, "data": "d25", "alpha": "exact", "integer": False, "capital": 1e6, "rng": 0, "fee": "propdec", "spread": None})
    for g in ("daily", "weekly"):
        for w in ({"a": 0.5, "b": 0.5}, {"a": 0.75, "b": -0.25}):
            extra.append({"tree": "fi_hedge", "stack": {"gate": g}, "fi_weights": w, "data": "d12", "alpha": "exact", "late": False, "integer": False, "capital": 0.0, "rng": 0, "fee": None, "spread": None, "mult_d": 2})
            extra.append({"tree": "fi_hedge", "stack": {"gate": g}, "fi_weights": w, "data": "d12", "alpha": "exact", "late": False, "integer": True, "capital": 0.0, "rng": 0, "fee": None, "spread": None, "mult_d": 2})  # (par-weighted securities trade fractional quantities in whole-unit mode too)
    fam = fam + extra
    kinds = ["py"] if ctx.tier == "quick" else ["py", "cy"]
    ctx.bounds = {"runs": len(fam), "builds": kinds}
    for kind in kinds:
        use = fam if kind == "py" else fam[::4]
        ok = 0
        for spec, (status, viols, ntr) in ctx.run(kind, MOD, "run_case", use, chunksize=4):
            ctx.add(transitions=1, traces_validated_against_impl=1, evaluations=1)
            if status == "refused":
                ctx.add(refused=1)
            if status == "ok":
                ok += 1
                ctx.add(states=1)
                if ntr:
                    ctx.mark(("run", kind, runcheck._key(spec)))
            for v in viols:
                ctx.violation(dict(v, build=kind, module=MOD, case={"driver": "run", "spec": spec}))
        ctx.extra.setdefault("run_family", []).append({"build": kind, "runs": len(use), "completed": ok})
        bsp = [s for s in c16.specs("quick", ctx.seed) if s["tree"] in ("flat", "nested") and s.get("scale", 1.0) == 1.0][:: 7 if ctx.tier == "quick" else 2]
        nneg = 0
        fr = [(w, c, i) for w in ("positions_first", "result_by_name") for c in ("a", "b", "d") for i in (True, False)]
        for item, (status, viols, n) in ctx.run(kind, MOD, "fresh_report_case", fr, chunksize=2):
            ctx.add(states=1, transitions=n, traces_validated_against_impl=n, evaluations=n)
            ctx.mark(("fresh", kind) + tuple(map(str, item)))
            for v in viols:
                ctx.violation(dict(v, build=kind, module=MOD, case={"driver": "fresh_report", "item": list(item)}))
        for spec, (status, viols, neg) in ctx.run(kind, MOD, "bankrupt_case", bsp, chunksize=8):
            ctx.add(transitions=1, traces_validated_against_impl=1, evaluations=1)
            if status == "ok":
                ctx.add(states=1)
                nneg += neg or 0
                if neg:
                    ctx.mark(("neg", kind, runcheck._key(spec)))
            for v in viols:
                ctx.violation(dict(v, build=kind, module=MOD, case={"driver": "bankrupt", "spec": spec}))
        ctx.extra.setdefault("negative_value_runs", []).append({"build": kind, "runs": len(bsp), "with_negative_root_value": nneg})
    ctx.sample({"run_spec": fam[5]})
