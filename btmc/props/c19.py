"""C19 - tree wiring and universe scoping are consistent; lazy children are transparent.

Explorer: every construction recipe for trees of <= 3 levels (children given as node / string /
dict entry / parent= attachment, incl. duplicates) with a structure walker; universe columns
inside set-up and running trees; lazy / eager / undeclared variants of the same backtests;
settings pushed from the root."""
import itertools
import json

import numpy as np
import pandas as pd

from .. import ref, rt, runcheck, runfam as R, tree as T

MOD = "btmc.props.c19"


# ----------------------------------------------------------------------
# (a) construction recipes
#
# recipe := ["S", name, container, [child recipes], how]      container in {"list", "dict"}
#         | ["X", name, how]                                     how in {"node", "string", "lazy_node"}
# how of a strategy in its parent: "node" (passed in children), "parent" (attached with parent=)


def build(recipe, parent=None):
    bt = rt.bt()
    kind = recipe[0]
    if kind == "X":
        _, name, how = recipe
        if how == "string":
            return name
        if how == "lazy_node":
            return bt.Security(name, lazy_add=True)
        return bt.Security(name)
    _, name, container, kids, how = recipe
    direct = [k for k in kids if not (k[0] == "S" and k[4] == "parent")]
    attached = [k for k in kids if k[0] == "S" and k[4] == "parent"]
    built = [(k, build(k)) for k in direct]
    if container == "dict":
        children = {}
        for k, obj in built:
            children[k[1]] = obj
    else:
        children = [obj for _, obj in built]
    if how == "parent" and parent is not None:
        node = bt.Strategy(name, [], children if built else None, parent=parent)
    else:
        node = bt.Strategy(name, [], children if built else None)
    for k in attached:
        build(k, parent=node)
    return node


def expected_tree(recipe):
    """(name, [expected children names in order], lazy names, {child: subtree})"""
    kids = recipe[3]
    direct = [k for k in kids if not (k[0] == "S" and k[4] == "parent")]
    attached = [k for k in kids if k[0] == "S" and k[4] == "parent"]
    order = []
    lazy = []
    for k in direct:
        if k[0] == "X" and k[2] in ("string", "lazy_node"):
            lazy.append(k[1])
        else:
            order.append(k)
    order += attached
    return order, lazy


def names_of(recipe):
    return [k[1] for k in recipe[3]]


def has_duplicates(recipe):
    if recipe[2] == "dict":
        # a dict cannot carry the same key twice: the later entry replaces the earlier one
        seen = {}
        for k in recipe[3]:
            if not (k[0] == "S" and k[4] == "parent"):
                seen[k[1]] = k
        kids = list(seen.values()) + [k for k in recipe[3] if k[0] == "S" and k[4] == "parent"]
        recipe[3] = kids
    n = names_of(recipe)
    if len(set(n)) != len(n):
        return True
    return any(k[0] == "S" and has_duplicates(k) for k in recipe[3])


def walk_check(node, recipe, root, path, out):
    bt = rt.bt()
    order, lazy = expected_tree(recipe)
    full = ">".join(path)
    if node.full_name != full:
        out.append(("full_name", full, node.full_name))
    if node.root is not root:
        out.append(("root", "root of the walk", repr(node.root)))
    got = list(node.children.keys())
    exp = [k[1] for k in order]
    if got != exp:
        out.append(("children", {"node": full, "children": exp}, got))
        return
    if sorted(node._lazy_children.keys()) != sorted(lazy):
        out.append(("lazy_children", {"node": full, "lazy": sorted(lazy)}, sorted(node._lazy_children.keys())))
    tick = [k[1] for k in recipe[3] if k[0] == "X"]
    if sorted(node._universe_tickers) != sorted(tick):
        out.append(("declared_tickers", {"node": full, "tickers": sorted(tick)}, sorted(node._universe_tickers)))
    for k in order:
        c = node.children[k[1]]
        if c.name != k[1]:
            out.append(("child_name", k[1], c.name))
        if c.parent is not node:
            out.append(("parent", full, repr(c.parent)))
        if k[0] == "S":
            walk_check(c, k, root, path + [k[1]], out)
        else:
            if c.root is not root:
                out.append(("root", "root of the walk", repr(c.root)))
            if c.full_name != full + ">" + k[1]:
                out.append(("full_name", full + ">" + k[1], c.full_name))


def preorder(node):
    out = [node]
    for c in node.children.values():
        out += preorder(c)
    return out


def recipe_case(items):
    bt = rt.bt()
    viols = []
    n = raised = 0
    for recipe in items:
        data = T.frame(T.TABLES["exact"], 4, ["a", "b", "c"])
        n += 1
        dup = has_duplicates(recipe)
        try:
            root = build(recipe)
        except Exception as e:
            if dup and rt.classify(e) == "guard":
                raised += 1
                continue
            viols.append({"rule": "construction_raises", "expected": "tree is built", "observed": rt.describe(e), "where": recipe})
            continue
        if dup:
            # a lazily declared name followed by an eager node of the same name is tolerated by the
            # library (the eager node wins); every other duplicate must raise
            def tolerated(r):
                # must raise: two eager nodes of one name, or a string naming an already declared ticker;
                # a lazily declared placeholder next to another declaration of the name is harmless
                eager = set()
                declared = set()
                ok = True
                for k in r[3]:
                    is_eager = k[0] == "S" or k[2] == "node"
                    if is_eager and k[1] in eager:
                        ok = False
                    if k[0] == "X" and k[2] == "string" and k[1] in declared:
                        ok = False
                    if is_eager:
                        eager.add(k[1])
                    if k[0] == "X":
                        declared.add(k[1])
                return ok and all(tolerated(k) for k in r[3] if k[0] == "S")

            if not tolerated(recipe):
                viols.append({"rule": "duplicate_sibling_accepted", "expected": "raises", "observed": "built", "where": recipe})
            continue
        out = []
        walk_check(root, recipe, root, [recipe[1]], out)
        mem = root.members
        pre = preorder(root)
        if [id(x) for x in mem] != [id(x) for x in pre]:
            out.append(("members", [x.full_name for x in pre], [x.full_name for x in mem]))
        # set up, push settings from the top, create the lazy children, look again
        if not out:
            try:
                marker = lambda q, p: 0.0  # noqa: E731
                root.setup(data)
                root.use_integer_positions(False)
                root.set_commissions(marker)
                root.adjust(64.0)
                root.update(data.index[0])

                def touch(node, r):
                    for k in r[3]:
                        if k[0] == "X" and k[2] in ("string", "lazy_node") and k[1] in data.columns and k[1] not in node.children:
                            node.transact(1.0, k[1])
                        if k[0] == "S":
                            touch(node.children[k[1]], k)

                # a sub-strategy sets its own mode: securities it creates later inherit from IT
                locals_ = [c for c in root.children.values() if isinstance(c, bt.core.StrategyBase)]
                for c in locals_:
                    c.use_integer_positions(True)
                touch(root, recipe)
                root.update(data.index[0])
                for c in locals_:
                    for x in c.members:
                        if x.integer_positions is not True:
                            out.append(("local_integer_positions", {"node": x.full_name, "integer_positions": True}, x.integer_positions))
                # ... and a second push from the top (with the value the root already has) reaches everybody
                root.use_integer_positions(False)
                mem2, pre2 = root.members, preorder(root)
                if [id(x) for x in mem2] != [id(x) for x in pre2]:
                    out.append(("members_after_lazy_creation", [x.full_name for x in pre2], [x.full_name for x in mem2]))
                secs = [x.full_name for x in pre2 if not isinstance(x, bt.core.StrategyBase)]
                if sorted(x.full_name for x in root.securities) != sorted(secs):
                    out.append(("securities_after_lazy_creation", sorted(secs), sorted(x.full_name for x in root.securities)))
                if list(data.columns) != ["a", "b", "c"] or data.shape != (4, 3):
                    out.append(("input_frame_mutated", ["a", "b", "c"], list(data.columns)))
                for x in root.members:
                    if x.integer_positions is not False:
                        out.append(("pushed_integer_positions", {"node": x.full_name, "integer_positions": False}, x.integer_positions))
                    if isinstance(x, bt.core.StrategyBase) and x.commission_fn is not marker:
                        out.append(("pushed_commission_fn", {"node": x.full_name}, "a different function"))
                    if x.root is not root:
                        out.append(("root_after_lazy_creation", x.full_name, repr(x.root)))
                # universe scoping
                for x in root.members:
                    if isinstance(x, bt.core.StrategyBase):
                        r = find(recipe, x.full_name.split(">")[1:])
                        decl = [k[1] for k in r[3] if k[0] == "X"]
                        subs = [k[1] for k in r[3] if k[0] == "S"]
                        passed = [k for k in r[3] if not (k[0] == "S" and k[4] == "parent")]
                        if passed:
                            # constructed with a children argument: the declared tickers only
                            exp = sorted([d for d in decl if d in data.columns] + subs)
                        else:
                            # declared nothing itself: every ticker (+ sub-strategies attached later)
                            exp = sorted(list(data.columns) + subs)
                        got = sorted(x.universe.columns)
                        if got != exp:
                            out.append(("universe_columns", {"node": x.full_name, "columns": exp}, got))
            except Exception as e:
                if rt.classify(e) != "guard":
                    out.append(("setup_raises", "setup / first trade completes", rt.describe(e)))
        for what, exp, obs in out[:3]:
            viols.append({"rule": "structure_" + what, "expected": exp, "observed": obs, "where": recipe})
    return (n, raised, viols[:20], len(viols))


def shared_case(item):
    """one node object handed to two places: children passed to a constructor are copied, so the
    two resulting nodes are independent and the template is untouched"""
    bt = rt.bt()
    kind, where = item
    data = T.frame(T.TABLES["exact"], 4, ["a", "b", "c"])
    if kind == "eager_sec":
        tpl = bt.Security("a")
    elif kind == "lazy_sec":
        tpl = bt.Security("a", lazy_add=True)
    else:
        tpl = bt.Strategy("x", [], ["a"])
    viols = []
    if where == "siblings":
        s1 = bt.Strategy("s1", [], [tpl, "b"])
        s2 = bt.Strategy("s2", [], [tpl])
        roots = [bt.Strategy("r", [], [s1, s2])]
        holders = [roots[0]["s1"], roots[0]["s2"]]
    elif where == "dict_siblings":
        s1 = bt.Strategy("s1", [], {"a" if kind != "strat" else "x": tpl})
        s2 = bt.Strategy("s2", [], {"a" if kind != "strat" else "x": tpl})
        roots = [bt.Strategy("r", [], {"s1": s1, "s2": s2})]
        holders = [roots[0]["s1"], roots[0]["s2"]]
    else:
        roots = [bt.Strategy("r1", [], [tpl]), bt.Strategy("r2", [], [tpl, "b"])]
        holders = roots
    for r in roots:
        r.use_integer_positions(False)
        r.setup(data)
        r.adjust(64.0)
        r.update(data.index[0])
    q = [3.0, 5.0]
    name = "a" if kind != "strat" else "x"
    for h, qty in zip(holders, q):
        if kind == "strat":
            h[name].transact(qty, "a") if False else h.allocate(16.0, child=name)
            h[name].transact(qty, "a")
        else:
            h.transact(qty, name)
    for r in roots:
        r.update(data.index[0])
    nodes = [h[name] for h in holders]
    if nodes[0] is nodes[1]:
        viols.append({"rule": "shared_node_not_copied", "expected": "two independent nodes", "observed": "the same object in both places"})
    for h, nd, qty in zip(holders, nodes, q):
        if nd.parent is not h:
            viols.append({"rule": "structure_parent", "expected": h.full_name, "observed": repr(nd.parent)})
        leaf = nd if kind != "strat" else nd["a"]
        if not (abs(float(leaf.position) - qty) <= 1e-12):
            viols.append({"rule": "shared_node_positions_mix", "expected": {"holder": h.full_name, "position": qty}, "observed": float(leaf.position)})
    for r in roots:
        mem = r.members
        if len(set(id(x) for x in mem)) != len(mem):
            viols.append({"rule": "structure_members", "expected": "every node once", "observed": [x.full_name for x in mem]})
        for x in mem:
            if x.root is not r:
                viols.append({"rule": "structure_root", "expected": r.name, "observed": repr(x.root)})
    if tpl.parent is not tpl or (kind != "strat" and float(tpl.position) != 0.0):
        viols.append({"rule": "template_node_mutated", "expected": "untouched template", "observed": {"parent": repr(tpl.parent)}})
    return (1, viols[:4], len(viols))


def dynamic_case(item):
    """sub-strategies created while the tree is running (parent= + setup_from_parent)"""
    bt = rt.bt()
    root_decl, decl1, decl2, when2 = item
    data = T.frame(T.TABLES["exact"], 4, ["a", "b", "c"])
    root = bt.Strategy("r", [], list(root_decl) if root_decl else None)
    root.use_integer_positions(False)
    # the parent trades at mid (its own bid/offer table is all zero); the sub-strategies attached later
    # bring a wide table of their own ("additional arguments ... overriding those from the parent")
    zero_bo = pd.DataFrame(0.0, index=data.index, columns=data.columns)
    wide_bo = pd.DataFrame(1.0, index=data.index, columns=data.columns)
    root.setup(data, bidoffer=zero_bo)
    root.adjust(64.0)
    root.update(data.index[0])
    viols = []

    def V(rule, exp, obs):
        viols.append({"rule": rule, "expected": exp, "observed": obs})

    made = []

    def make(name, decl):
        c = bt.Strategy(name, [], list(decl) if decl else None, parent=root)
        c.setup_from_parent(bidoffer=wide_bo)
        made.append((name, decl))
        return c

    d1 = make("d1", decl1)
    # first use of one of the parent's own (string-named) tickers after the child was set up: it trades
    # on the parent's table, like a security constructed up front
    own = [t_ for t_ in (root_decl or list(data.columns)) if t_ in data.columns]
    if own:
        root.allocate(4.0, child=own[0])
        sec = root[own[0]]
        if not (abs(float(sec.bidoffer_paid)) <= 1e-12) or not (abs(float(sec.position) * float(data[own[0]].iloc[0]) - 4.0) <= 1e-9):
            V("lazy_security_uses_its_parents_tables", {"security": own[0], "bidoffer_paid": 0.0, "cost": 4.0}, {"bidoffer_paid": float(sec.bidoffer_paid), "position": float(sec.position)})
    root.allocate(16.0, child="d1")
    tick1 = (decl1 or ["a"])[0]
    d1.transact(2.0, tick1)
    root.update(data.index[0])
    for i in range(1, 4):
        if i == when2:
            # the parent's universe has been looked at on this date already, then the child is attached:
            # what the parent sees afterwards has the new column and still ends at the current date
            root.update(data.index[i])
            before_cols = sorted(root.universe.columns)
            d2 = make("d2", decl2)
            u = root.universe
            if len(u.index) and u.index[-1] > root.now:
                V("universe_beyond_now", {"node": "r", "now": str(root.now), "after": "attaching a sub-strategy on a date whose universe was read before"}, str(u.index[-1]))
            if "d2" not in u.columns:
                V("structure_universe_columns", {"node": "r", "has_column": "d2", "before": before_cols}, sorted(u.columns))
            root.allocate(8.0, child="d2")
            d2.transact(1.0, (decl2 or ["b"])[0])
        root.update(data.index[i])
    for name, decl in made:
        c = root[name]
        exp = sorted(decl) if decl else sorted(data.columns)
        got = sorted(c.universe.columns)
        if got != exp:
            V("structure_universe_columns", {"node": c.full_name, "columns": exp}, got)
        if c.parent is not root or c.root is not root or c.full_name != "r>" + name:
            V("structure_parent", "r>" + name, c.full_name)
        if name not in root.universe.columns:
            V("structure_universe_columns", {"node": "r", "has_column": name}, sorted(root.universe.columns))
        else:
            col = root._universe[name]
            born = data.index[0] if name == "d1" else data.index[min(when2, 3)]
            for lab in c.prices.index:
                if lab < born:
                    continue  # the child did not exist yet
                u, pr = float(col.loc[lab]), float(c.prices.loc[lab])
                if not (abs(u - pr) <= 1e-12 * max(1.0, abs(pr))):
                    V("substrategy_column_is_child_index", {"child": name, "date": str(lab), "price": pr}, u)
                    break
    exp_root = sorted([t for t in (root_decl or []) if t in data.columns] + [n for n, _ in made]) if root_decl else sorted(list(data.columns) + [n for n, _ in made])
    if sorted(root.universe.columns) != exp_root:
        V("structure_universe_columns", {"node": "r", "columns": exp_root}, sorted(root.universe.columns))
    if list(data.columns) != ["a", "b", "c"]:
        V("structure_input_frame_mutated", ["a", "b", "c"], list(data.columns))
    mem, pre = root.members, preorder(root)
    if [id(x) for x in mem] != [id(x) for x in pre]:
        V("structure_members", [x.full_name for x in pre], [x.full_name for x in mem])
    return (1, viols[:4], len(viols))


def find(recipe, path):
    r = recipe
    for p in path:
        r = [k for k in r[3] if k[1] == p and k[0] == "S"][0]
    return r


def recipes(tier):
    secs = [["X", n, h] for n in ("a", "b") for h in ("node", "string", "lazy_node")]
    leaf_sets = []
    for n in (0, 1, 2):
        for combo in itertools.product(secs, repeat=n):
            leaf_sets.append(list(combo))
    out = []
    # level-2 strategies
    subs = []
    for cont in ("list", "dict"):
        for kids in leaf_sets:
            if cont == "dict" and any(k[2] == "string" for k in kids) and len(kids) == 0:
                continue
            for how in ("node", "parent"):
                subs.append(lambda name, cont=cont, kids=kids, how=how: ["S", name, cont, [list(k) for k in kids], how])
    for cont in ("list", "dict"):
        for kids in leaf_sets:
            out.append(["S", "r", cont, [list(k) for k in kids], "node"])
    step = 1 if tier != "quick" else 3
    for cont in ("list", "dict"):
        for i, mk in enumerate(subs[::step]):
            for extra in ([], [["X", "b", "string"]], [["X", "a", "node"]], [["S", "s1", "list", [["X", "a", "string"]], "node"]]):
                s1 = mk("s1")
                out.append(["S", "r", cont, [s1] + [list(e) for e in extra], "node"])
    # three levels
    for cont in ("list", "dict"):
        for how2 in ("node", "parent"):
            for how3 in ("node", "parent"):
                for leaf in secs:
                    s11 = ["S", "s11", "list", [list(leaf)], how3]
                    s1 = ["S", "s1", cont, [s11, ["X", "b", "string"]], how2]
                    out.append(["S", "r", "list", [s1, ["X", "c", "string"]], "node"])
    return out


# ----------------------------------------------------------------------
# (c) lazy / eager / undeclared variants of the same backtest


def variants_case(spec):
    res = {}
    for tree in ("flat", "flat_decl", "flat_eager"):
        sp = dict(spec, tree=tree)
        r = runcheck.execute(sp)
        if r["status"] == "guard":
            return ("refused", [], 0)
        if runcheck.known_dead(sp, r):
            return ("refused", [], 0)
        if r["status"] == "crash":
            return ("crash", [{"rule": "crash", "observed": r["err"], "where": tree}], 0)
        res[tree] = r
    viols = []
    exact = spec.get("integer") and spec.get("alpha", "exact") == "exact"
    st = spec.get("stack") or {}
    # two stock algos look at target.children / target.positions, which do not contain a lazily
    # declared security before its first trade
    sig = None
    if st.get("select") == "types":
        sig = "lazy_vs_eager|SelectTypes sees only children that already exist"
    elif st.get("gate") == "pte":
        sig = "lazy_vs_eager|PTE_Rebalance returns True while no child exists yet"
    base = res["flat_eager"]["hist"]
    cap = float(spec.get("capital", 1e6))

    def series(h, node, s):
        if node in h and s in h[node]:
            return h[node][s][1]
        return None

    for tree in ("flat", "flat_decl"):
        h = res[tree]["hist"]
        for s in ("prices", "values", "cash", "fees"):
            a, b = series(base, "r", s), series(h, "r", s)
            if not same(a, b, exact, cap if s != "prices" else 100.0):
                viols.append({"rule": "lazy_equals_eager", "sig": sig, "expected": {"variant": "flat_eager", "series": "r." + s, "values": a}, "observed": {"variant": tree, "values": b}})
                break
        for tk in ("a", "b", "c", "d"):
            a = series(base, "r>" + tk, "positions")
            b = series(h, "r>" + tk, "positions")
            if b is None:
                b = [0.0] * len(a)
            if not same(a, b, exact, max(1.0, max(abs(x) for x in a))):
                viols.append({"rule": "lazy_equals_eager", "sig": sig, "expected": {"variant": "flat_eager", "series": tk + ".positions", "values": a}, "observed": {"variant": tree, "values": b}})
                break
    return ("ok", viols[:3], len(res["flat_eager"]["trades"]))


def same(a, b, exact, scale):
    if a is None or b is None or len(a) != len(b):
        return False
    for x, y in zip(a, b):
        if x != x or y != y:
            if not (x != x and y != y):
                return False
            continue
        if exact:
            if x != y:
                return False
        elif not (abs(x - y) <= 1e-9 * max(1.0, abs(x), abs(y), scale)):
            return False
    return True


# ----------------------------------------------------------------------
# (b)/(d) inside running nested backtests: sub-strategy columns, pushed commission


def nested_case(spec):
    bt = rt.bt()
    r = runcheck.execute(spec)
    if r["status"] == "guard":
        return ("refused", [], 0)
    if runcheck.known_dead(spec, r):
        return ("refused", [], 0)
    if r["status"] == "crash":
        return ("crash", [{"rule": "crash", "observed": r["err"]}], 0)
    b = r["b"]
    viols = []
    spy = r["info"]["spy"]
    for n in b.strategy.members:
        if isinstance(n, bt.core.StrategyBase):
            for cname, c in n.children.items():
                if isinstance(c, bt.core.StrategyBase):
                    col = n._universe[cname]
                    pr = c.prices
                    for lab in pr.index[1:]:
                        u, p = float(col.loc[lab]), float(pr.loc[lab])
                        if not (abs(u - p) <= 1e-12 * max(1.0, abs(p))):
                            viols.append({"rule": "substrategy_column_is_child_index", "expected": {"parent": n.full_name, "child": cname, "date": str(lab), "price": p}, "observed": u})
                            break
            if spy is not None and n.commission_fn is not None and type(n.commission_fn).__name__ != "FeeSpy":
                viols.append({"rule": "pushed_commission_fn", "expected": {"node": n.full_name, "commission_fn": "the function passed to Backtest"}, "observed": repr(n.commission_fn)[:80]})
        if n.integer_positions is not bool(spec.get("integer", True)):
            viols.append({"rule": "pushed_integer_positions", "expected": {"node": n.full_name, "integer_positions": bool(spec.get("integer", True))}, "observed": n.integer_positions})
    return ("ok", viols[:4], len(r["trades"]))


def backtest_universe_case(item):
    """inside a real Backtest: a strategy that declared nothing sees every column of the data, one that
    declared tickers sees exactly those - including a ticker that has no price at all (yet)"""
    bt = rt.bt()
    A = bt.algos
    from .. import runfam as R

    shape, empty_col, integer = item
    data = R.table("d12", "exact", late=False)
    if empty_col == "all_nan":
        data["c"] = float("nan")
    elif empty_col == "late":
        data.iloc[:5, 2] = float("nan")
    stack = [A.RunWeekly(), A.SelectAll(), A.WeighEqually(), A.Rebalance()]
    if shape == "undeclared":
        s = bt.Strategy("r", stack)
        exp = {"r": ["a", "b", "c", "d"]}
    elif shape in ("empty_list", "empty_dict"):
        # an explicitly empty collection declares nothing
        s = bt.Strategy("r", stack, [] if shape == "empty_list" else {})
        exp = {"r": ["a", "b", "c", "d"]}
    elif shape == "settings":
        # a three-level template some of whose nodes were switched to the other position mode before:
        # the backtest's own settings reach every node of its copy
        leaf = bt.Strategy("leaf", [A.RunWeekly(), A.SelectAll(), A.WeighEqually(), A.Rebalance()], [bt.Security("a"), "b"])
        mid = bt.Strategy("mid", [A.RunWeekly(), A.WeighSpecified(leaf=0.5, d=0.25), A.Rebalance()], [leaf, bt.Security("d")])
        s = bt.Strategy("r", [A.RunMonthly(), A.WeighSpecified(mid=0.75), A.Rebalance()], [mid])
        s.use_integer_positions(not integer)
        exp = {}
    elif shape == "declared":
        s = bt.Strategy("r", stack, ["a", "c"])
        exp = {"r": ["a", "c"]}
    elif shape == "declared_nodes":
        s = bt.Strategy("r", stack, [bt.Security("c"), bt.Security("d")])
        exp = {"r": ["c", "d"]}
    else:
        sub = bt.Strategy("s", [A.RunWeekly(), A.SelectAll(), A.WeighEqually(), A.Rebalance()], ["c", "d"])
        s = bt.Strategy("r", [A.RunWeekly(), A.WeighSpecified(s=0.5, a=0.25), A.Rebalance()], [sub, "a"])
        exp = {"r": ["a", "s"], "r>s": ["c", "d"]}
    fee_fn = (lambda q, p: abs(q) * 0.01) if shape == "settings" else None
    b = bt.Backtest(s, data, integer_positions=integer, commissions=fee_fn, progress_bar=False)
    viols = []
    try:
        b.run()
    except Exception as e:
        if rt.classify(e) == "guard":
            return ("refused", [], 0)
        return ("crash", [{"rule": "crash", "observed": rt.describe(e)}], 0)
    if shape == "settings":
        for n in b.strategy.members:
            if bool(n.integer_positions) is not bool(integer):
                viols.append({"rule": "pushed_integer_positions", "expected": {"node": R.node_path(n), "integer_positions": integer, "template_had": not integer}, "observed": bool(n.integer_positions)})
                break
            if isinstance(n, bt.core.StrategyBase) and n.commission_fn is not fee_fn:
                viols.append({"rule": "pushed_commission_fn", "expected": {"node": R.node_path(n), "commission_fn": "the function passed to Backtest"}, "observed": repr(n.commission_fn)[:80]})
                break
    for n in b.strategy.members:
        if isinstance(n, bt.core.StrategyBase):
            path = R.node_path(n)
            if path in exp:
                got = sorted(str(c) for c in n.universe.columns)
                if got != sorted(exp[path]):
                    viols.append({"rule": "universe_columns_in_backtest", "expected": {"node": path, "columns": sorted(exp[path]), "data_columns": list(data.columns), "column_c": empty_col}, "observed": got})
    return ("ok", viols, 1)


def hedge_variants_case(spec):
    """a hedge instrument declared lazily (lazy_add, with a contract multiplier) gives the same book as the
    same instrument constructed up front"""
    res = {}
    for lazy in (False, True):
        r = runcheck.execute(dict(spec, lazy_hedge=lazy))
        if r["status"] == "guard":
            return ("refused", [], 0)
        if r["status"] == "crash":
            return ("crash", [{"rule": "crash", "observed": r["err"], "where": {"lazy_hedge": lazy}}], 0)
        res[lazy] = r["hist"]
    viols = []
    for node in res[False]:
        for s_ in ("values", "prices", "cash", "positions", "notional_values"):
            if s_ not in res[False][node]:
                continue
            a = res[False][node][s_]
            b = res[True].get(node, {}).get(s_)
            if b is None:
                viols.append({"rule": "lazy_vs_eager", "expected": {"node": node, "series": s_}, "observed": "node missing in the lazy variant"})
                break
            da, db = dict(zip(*a)), dict(zip(*b))
            for lab, x in da.items():
                y = db.get(lab, 0.0)
                if not (abs(x - y) <= 1e-9 * max(1.0, abs(x)) or (x != x and y != y)):
                    viols.append({"rule": "lazy_vs_eager", "expected": {"node": node, "series": s_, "date": lab, "eager": x}, "observed": y})
                    break
            if viols:
                break
        if viols:
            break
    return ("ok", viols[:2], 1)


def replay(case):
    k = case["kind"]
    if k == "recipe":
        return recipe_case([case["where"]])[2]
    if k == "shared":
        return shared_case(tuple(case["where"]))[1]
    if k == "dynamic":
        return dynamic_case(tuple(case["where"]))[1]
    if k == "variants":
        return variants_case(case["spec"])[1]
    if k == "hedgevariants":
        return hedge_variants_case(case["spec"])[1]
    if k == "btuniverse":
        return backtest_universe_case(tuple(case["where"]))[1]
    return nested_case(case["spec"])[1]


def run(ctx):
    ctx.rule = "every construction recipe for trees of <= 3 levels (children as node / string / lazy node / dict entry / parent= attachment, duplicates included) with a structure walker, then set-up, settings pushed from the root and lazy creation; lazy / eager / undeclared variants of every flat run of the family; nested runs for sub-strategy universe columns; universes inside real backtests whose data has a column without any price; non-trivial = distinct recipe that was built, or run with at least one trade"
    ctx.assumptions += [
        "lazy vs eager: bit-for-bit with integer positions on the exact alphabet, 1e-9 relative otherwise; integer positions on decimal data are left out (a different summation order may flip a floor)",
        "a lazily declared name followed by an eager node of the same name is tolerated by the library (the eager node wins)",
        "SelectTypes and PTE_Rebalance look at target.children / target.positions, which do not contain a lazily declared security before its first trade: recorded as known findings",
    ]
    kinds = ["py"] if ctx.tier == "quick" else ["py", "cy"]
    recs = recipes(ctx.tier)
    chunks = [recs[i : i + 40] for i in range(0, len(recs), 40)]
    fam = [s for s in R.family(ctx.tier if ctx.tier == "quick" else "quick", ctx.seed) if s["tree"] == "flat"]
    vspecs = []
    for s in fam:
        vspecs.append(dict(s, integer=True, alpha="exact"))
        vspecs.append(dict(s, integer=False, alpha="decimal", fee="propdec"))
    if ctx.tier == "quick":
        vspecs = vspecs[ctx.seed % 2 :: 2]
    nested = [s for s in R.family("quick", ctx.seed) if s["tree"] in ("nested", "deep")]
    nested += [dict(s, tree="deep", fee="pershare") for s in nested[:10]]
    ctx.bounds = {"recipes": len(recs), "variant_triples": len(vspecs), "nested_runs": len(nested), "builds": kinds}
    for kind in kinds:
        for item, (n, raised, viols, nv) in ctx.run(kind, MOD, "recipe_case", chunks, chunksize=1):
            ctx.add(states=n, transitions=n, traces_validated_against_impl=n, evaluations=n)
            ctx.nontrivial_count += n - raised
            for v in viols:
                ctx.violation(dict(v, build=kind, module=MOD, case={"kind": "recipe", "where": v["where"]}))
        shared = [(k, w) for k in ("eager_sec", "lazy_sec", "strat") for w in ("siblings", "dict_siblings", "two_trees")]
        for item, (n, viols, nv) in ctx.run(kind, MOD, "shared_case", shared, chunksize=1):
            ctx.add(states=1, transitions=1, traces_validated_against_impl=1, evaluations=1)
            ctx.nontrivial_count += 1
            for v in viols:
                ctx.violation(dict(v, build=kind, module=MOD, case={"kind": "shared", "where": list(item)}))
        dyn = [(rd, d1, d2, w2) for rd in (None, ["a", "b"]) for d1 in (None, ["a"], ["a", "c"]) for d2 in (None, ["b"], ["c", "b"]) for w2 in (1, 2, 3, 9)]
        for item, (n, viols, nv) in ctx.run(kind, MOD, "dynamic_case", dyn, chunksize=2):
            ctx.add(states=1, transitions=1, traces_validated_against_impl=1, evaluations=1)
            ctx.nontrivial_count += 1
            for v in viols:
                ctx.violation(dict(v, build=kind, module=MOD, case={"kind": "dynamic", "where": list(item)}))
        for spec, (status, viols, ntr) in ctx.run(kind, MOD, "variants_case", vspecs, chunksize=2):
            ctx.add(states=1, transitions=3, traces_validated_against_impl=3, evaluations=1)
            if status == "ok" and ntr:
                ctx.mark(("var", kind, runcheck._key(spec)))
            for v in viols:
                ctx.violation(dict(v, build=kind, module=MOD, case={"kind": "variants", "spec": spec}))
        for spec, (status, viols, ntr) in ctx.run(kind, MOD, "nested_case", nested, chunksize=2):
            ctx.add(states=1, transitions=1, traces_validated_against_impl=1, evaluations=1)
            if status == "ok" and ntr:
                ctx.mark(("nested", kind, runcheck._key(spec)))
            for v in viols:
                ctx.violation(dict(v, build=kind, module=MOD, case={"kind": "nested", "spec": spec}))
    hv = [{"tree": "fi_hedge", "stack": {"gate": g}, "fi_weights": w, "data": "d12", "alpha": "exact", "late": False, "integer": False, "capital": 0.0, "rng": 0, "fee": None, "spread": None, "mult_d": m} for g in ("daily", "weekly") for w in ({"a": 0.5, "b": 0.5}, {"a": 0.75, "b": -0.25}) for m in (1, 2, 10)]
    for kind in kinds:
        for spec, (status, viols, n) in ctx.run(kind, MOD, "hedge_variants_case", hv, chunksize=2):
            ctx.add(states=1, transitions=2, traces_validated_against_impl=2, evaluations=1)
            if status == "ok":
                ctx.mark(("hv", kind, runcheck._key(spec)))
            for v in viols:
                ctx.violation(dict(v, build=kind, module=MOD, case={"kind": "hedgevariants", "spec": spec}))
    bu = [(sh, ec, integer) for sh in ("undeclared", "empty_list", "empty_dict", "declared", "declared_nodes", "nested", "settings") for ec in ("full", "late", "all_nan") for integer in (True, False)]
    for kind in kinds:
        for item, (status, viols, n) in ctx.run(kind, MOD, "backtest_universe_case", bu, chunksize=2):
            ctx.add(states=1, transitions=1, traces_validated_against_impl=1, evaluations=1)
            if status == "ok":
                ctx.mark(("btuniverse", kind) + tuple(map(str, item)))
            for v in viols:
                ctx.violation(dict(v, build=kind, module=MOD, case={"kind": "btuniverse", "where": list(item)}))
    ctx.sample({"recipe": recs[len(recs) // 2]})
    ctx.sample({"variant_spec": vspecs[3]})
