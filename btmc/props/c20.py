"""C20 - risk sums over the tree, hedges neutralise it, matured positions close and roll.

Explorer: `product` - trees x multipliers x positions x unit-risk tables (missing columns) x
history depth x dates; hedge instrument sets (as many / fewer / more than measures); all
assignments of close / roll dates."""
import itertools
import json
import math

import numpy as np
import pandas as pd

from .. import rt, tree as T

MOD = "btmc.props.c20"

DATES = T.DATES[:4]


def unit_risk_tables(variant):
    """{measure: {ticker: [per date]}} - each measure misses one column"""
    if variant == 0:
        return {"M1": {"a": [1.0, 2.0, 0.5, 1.0], "b": [0.5, 0.5, 1.0, 2.0]}, "M2": {"b": [2.0, 1.0, 1.0, 0.5], "c": [1.0, 1.0, 2.0, 4.0]}}
    if variant == 2:
        # no risk number for 'a' on the later dates (matured, not yet issued, ...): a flat position carries no risk all the same
        nan = float("nan")
        return {"M1": {"a": [1.0, nan, nan, nan], "b": [0.5, 0.5, 1.0, 2.0]}, "M2": {"a": [nan, nan, nan, nan], "b": [2.0, 1.0, 1.0, 0.5], "c": [1.0, 1.0, 2.0, 4.0]}}
    return {"M1": {"a": [0.25, 0.5, 1.0, 2.0], "c": [1.0, 0.5, 0.25, 0.5]}, "M2": {"a": [1.0, 1.0, 1.0, 1.0], "b": [0.5, 1.0, 2.0, 1.0]}}


def frames(tables, idx):
    return {m: pd.DataFrame({k: np.array(v[: len(idx)], dtype=float) for k, v in cols.items()}, index=idx) for m, cols in tables.items()}


def risk_case(item):
    bt = rt.bt()
    shape, mult, positions, variant, history, ndate = item[:6]
    close_after = item[6] if len(item) > 6 else None
    on = list(item[7]) if len(item) > 7 and item[7] else []  # the strategy whose stack holds UpdateRisk (default: the root)
    spec = {"shape": shape, "integer": False, "capital": 1024.0, "mult": mult}
    if shape == "T2":
        spec["prefund"] = [[[], "s1", 256.0], [[], "s2", 128.0]]
    t = T.Tree(spec)
    tables = unit_risk_tables(variant)
    ur = frames(tables, t.data.index)
    # additional data is handed over at setup: redo it with the risk tables
    for n in t.root.members:
        if isinstance(n, bt.core.StrategyBase):
            n._setup_kwargs = dict(n._setup_kwargs, unit_risk=ur)
    viols = []
    algos = {m: bt.algos.UpdateRisk(m, history=history) for m in tables}
    secs = []

    def walk(n, path):
        for k, c in n.children.items():
            if isinstance(c, bt.core.StrategyBase):
                walk(c, path + [k])
            else:
                secs.append((path, k))

    walk(t.root, [])
    for di in range(ndate + 1):
        if di > 0:
            t.apply(["next"])
        if di == 0:
            for (path, k), q in zip(secs, positions):
                if q != 0.0:
                    t.apply(["transact", path, k, q])
        top = t.node(on)
        for m in tables:
            algos[m](top)
        if close_after is not None and di == close_after:
            # positions closed AFTER this date's risk update: the next update must see them flat
            for (path, k), q in zip(secs, positions):
                if q != 0.0:
                    t.apply(["transact", path, k, -q])
                    break
            continue
        # reference aggregation
        now_i = t.i
        for m in tables:

            def ref(n):
                if isinstance(n, bt.core.StrategyBase):
                    return sum(ref(c) for c in n.children.values())
                u = tables[m].get(n.name)
                ur_ = u[now_i] if u is not None else 0.0
                if float(n.position) == 0.0:
                    return 0.0
                return ur_ * float(n.position) * float(n.multiplier)

            base_depth = len(on)
            for n in top.members:
                exp = ref(n)
                got = getattr(n, "risk", {}).get(m, None)
                if got is None or not (abs(float(got) - exp) <= 1e-9 * max(1.0, abs(exp))):
                    viols.append({"rule": "risk_aggregation", "expected": {"node": n.full_name, "measure": m, "date": str(t.root.now), "risk": exp}, "observed": got})
                depth = n.full_name.count(">") - base_depth  # levels below the strategy the algo was called on
                has_hist = hasattr(n, "risks")
                if (depth < history) != has_hist:
                    viols.append({"rule": "risk_history_depth", "expected": {"node": n.full_name, "depth": depth, "history": history, "has_risks": depth < history}, "observed": has_hist})
                elif has_hist:
                    row = n.risks.loc[t.root.now, m] if (t.root.now in n.risks.index and m in n.risks.columns) else None
                    if row is None or not (abs(float(row) - exp) <= 1e-9 * max(1.0, abs(exp))):
                        viols.append({"rule": "risk_history_row", "expected": {"node": n.full_name, "measure": m, "date": str(t.root.now), "risk": exp}, "observed": None if row is None else float(row)})
    return (ndate + 1, viols[:6], len(viols))


def hedge_case(item):
    """UpdateRisk -> HedgeRisks -> UpdateRisk: hedged measures are zero (square) / least-squares minimal"""
    bt = rt.bt()
    A = bt.algos
    measures, instruments, pseudo, hmult, positions, variant, date_i = item
    idx = pd.DatetimeIndex(DATES)
    tickers = ["a", "b", "c", "h1", "h2", "h3"]
    data = pd.DataFrame({k: [4.0, 2.0, 8.0, 4.0] if k in "abc" else [1.0, 1.0, 2.0, 1.0] for k in tickers}, index=idx, dtype=float)
    base = unit_risk_tables(variant)
    tables = {m: dict(base[m]) for m in measures}
    # hedge instruments: independent unit risks
    H = {"h1": {"M1": [1.0, 2.0, 1.0, 0.5], "M2": [0.0, 0.5, 1.0, 1.0]}, "h2": {"M1": [0.0, 1.0, 0.5, 1.0], "M2": [1.0, 1.0, 2.0, 0.5]}, "h3": {"M1": [1.0, 1.0, 2.0, 2.0], "M2": [1.0, 2.0, 1.0, 2.0]}}
    for h in instruments:
        for m in measures:
            tables[m][h] = H[h][m]
    ur = frames(tables, idx)
    if variant == 1 and len(measures) > 1:
        # the last measure's table carries extra history before the backtest starts
        m = measures[-1]
        early = pd.DatetimeIndex(["2019-12-30", "2019-12-31"])
        pre = pd.DataFrame({k: [7.0, 9.0] for k in ur[m].columns}, index=early)
        ur[m] = pd.concat([pre, ur[m]])
    kids = [bt.Security("a"), bt.Security("b"), bt.Security("c")] + [bt.HedgeSecurity(h, multiplier=hmult) for h in instruments]
    s = bt.FixedIncomeStrategy("r", [], children=kids)
    s.use_integer_positions(False)
    s.setup(data, unit_risk=ur)
    s.adjust(1024.0)
    for i in range(date_i + 1):
        s.update(idx[i])
    for k, q in zip("abc", positions):
        if q:
            s.transact(q, k)
    s.update(s.now)
    up = [A.UpdateRisk(m) for m in measures]
    for u in up:
        u(s)
    before = {m: float(s.risk[m]) for m in measures}
    s.temp = {"selected": list(instruments)}
    viols = []
    J = np.array([[tables[m][h][date_i] * hmult for m in measures] for h in instruments], dtype=float)  # risk per unit of each instrument
    J0 = np.array([[tables[m][h][date_i] for m in measures] for h in instruments], dtype=float)
    square = len(instruments) == len(measures)
    if not pseudo and not square:
        return (1, [], 0)  # documented to fail
    if square and abs(np.linalg.det(J0)) < 1e-9:
        return (1, [], 0)
    try:
        A.HedgeRisks(list(measures), pseudo=pseudo)(s)
        s.update(s.now)
        for u in up:
            u(s)
    except Exception as e:
        viols.append({"rule": "hedge_raises", "expected": "hedge completes", "observed": rt.describe(e)})
        return (1, viols, 1)
    after = np.array([float(s.risk[m]) for m in measures])
    b = np.array([before[m] for m in measures])
    if square:
        if not (np.max(np.abs(after)) <= 1e-9 * max(1.0, np.max(np.abs(b)))):
            sig = "hedge_residual|square|multiplier=%s" % hmult if hmult != 1 else None
            viols.append({"rule": "hedge_leaves_risk", "sig": sig, "expected": {"risk_after": [0.0] * len(measures), "risk_before": before, "instrument_multiplier": hmult}, "observed": [float(x) for x in after]})
    else:
        # least squares: no other notionals give a smaller residual
        x, res, rk, sv = np.linalg.lstsq(J.T, -b, rcond=None)
        best = J.T.dot(x) + b
        if np.linalg.norm(after) > np.linalg.norm(best) + 1e-9 * max(1.0, np.linalg.norm(b)):
            sig = "hedge_residual|pseudo|multiplier=%s" % hmult if hmult != 1 else None
            viols.append({"rule": "hedge_not_least_squares", "sig": sig, "expected": {"residual_norm": float(np.linalg.norm(best)), "instrument_multiplier": hmult}, "observed": float(np.linalg.norm(after))})
    return (1, viols, len(viols))


def close_roll_case(item):
    """all assignments of close / roll dates to two securities inside a real backtest"""
    bt = rt.bt()
    A = bt.algos
    fi, closes, rolls, factor, use_select_active = item
    idx = pd.bdate_range("2020-01-06", periods=6)
    data = pd.DataFrame({"c1": [1.0, 1.0, 1.5, 1.0, 0.5, 1.0], "c2": [2.0, 2.0, 1.0, 2.0, 2.0, 4.0], "n1": [1.0, 2.0, 1.0, 1.0, 2.0, 1.0], "n2": [4.0, 4.0, 2.0, 4.0, 4.0, 2.0]}, index=idx, dtype=float)
    when = {"before": idx[0] - pd.Timedelta(days=3), "after": idx[-1] + pd.Timedelta(days=3)}
    for k in range(6):
        when[k] = idx[k]
    close_dates = pd.DataFrame({"date": [when[v] for v in closes.values()]}, index=list(closes)) if closes else pd.DataFrame({"date": pd.to_datetime([])})
    roll_rows = {k: {"date": when[v[0]], "target": v[1], "factor": factor} for k, v in rolls.items()}
    roll_data = pd.DataFrame(roll_rows).T if roll_rows else pd.DataFrame({"date": pd.to_datetime([]), "target": [], "factor": []})
    names = ["c1", "c2", "n1", "n2"]
    held = ["c1", "c2"]
    log = []

    class Tap(bt.core.Algo):
        def __call__(self, target):
            log.append((target, str(target.now), list(target.temp.get("selected", []))))
            return True

    stack = [A.ClosePositionsAfterDates("closes"), A.RollPositionsAfterDates("rolls"), A.RunOnce() if not use_select_active else A.RunDaily(), A.SelectThese(held)]
    if use_select_active:
        stack += [A.SelectActive()]
    stack += [Tap(), A.WeighEqually()]
    if fi:
        stack = [stack[0], stack[1], stack[2], A.SetNotional("notional")] + stack[3:]
        stack += [A.Rebalance()]
        s = bt.FixedIncomeStrategy("r", stack, children=[bt.FixedIncomeSecurity(n) for n in names])
    else:
        stack += [A.ScaleWeights(0.5), A.Rebalance()]
        s = bt.Strategy("r", stack, [bt.Security(n) for n in names])
    ad = {"closes": close_dates, "rolls": roll_data, "notional": pd.Series(64.0, index=idx)}
    b = bt.Backtest(s, data, initial_capital=1024.0, integer_positions=False, progress_bar=False, additional_data=ad)
    viols = []
    try:
        b.run()
    except Exception as e:
        if rt.classify(e) == "guard":
            return (1, [], 0)
        return (1, [{"rule": "crash", "observed": rt.describe(e)}], 1)
    root = b.strategy
    labels = list(root.values.index)
    pos = {n: root[n].positions for n in names}
    for sec, v in closes.items():
        cd = when[v]
        if not use_select_active and cd <= labels[1]:
            continue  # closed before the one-off purchase: buying afterwards is the stack's own doing
        for lab in labels[1:]:
            if lab >= cd and not (abs(float(pos[sec].loc[lab])) <= 1e-9):
                # a rolled-into target may legitimately hold a position; only the closed name is checked
                viols.append({"rule": "position_after_close_date", "expected": {"security": sec, "close_date": str(cd), "date": str(lab), "position": 0.0}, "observed": float(pos[sec].loc[lab])})
                break
        if use_select_active:
            for tgt, d, sel in log:
                if tgt is root and pd.Timestamp(d) >= cd and sec in sel:
                    viols.append({"rule": "closed_security_selected_again", "expected": {"security": sec, "close_date": str(cd)}, "observed": {"date": d, "selected": sel}})
                    break
    for sec, (v, tgt_name) in rolls.items():
        rd = when[v]
        if not use_select_active and rd <= labels[1]:
            continue
        done = [lab for lab in labels[1:] if lab >= rd]
        if not done:
            continue
        first = done[0]
        prev = labels[labels.index(first) - 1]
        before_pos = float(pos[sec].loc[prev])
        for lab in done:
            if not (abs(float(pos[sec].loc[lab])) <= 1e-9):
                viols.append({"rule": "position_after_roll_date", "expected": {"security": sec, "roll_date": str(rd), "date": str(lab), "position": 0.0}, "observed": float(pos[sec].loc[lab])})
                break
        if not use_select_active:
            # buy-and-hold: the target holds exactly factor x the rolled quantity (summed over sources), once
            srcs = [s2 for s2, (v2, t2) in rolls.items() if t2 == tgt_name]
            exp = 0.0
            for s2 in srcs:
                rd2 = when[rolls[s2][0]]
                d2 = [lab for lab in labels[1:] if lab >= rd2]
                if d2 and d2[0] <= labels[-1]:
                    p2 = labels[labels.index(d2[0]) - 1]
                    exp += factor * float(pos[s2].loc[p2])
            got = float(pos[tgt_name].loc[labels[-1]])
            closed_tgt = tgt_name in closes and when[closes[tgt_name]] <= labels[-1]
            rolled_tgt = tgt_name in rolls and when[rolls[tgt_name][0]] <= labels[-1]
            if not closed_tgt and not rolled_tgt and not (abs(got - exp) <= 1e-9 * max(1.0, abs(exp))):
                viols.append({"rule": "rolled_quantity", "expected": {"target": tgt_name, "position": exp, "factor": factor}, "observed": got})
    return (1, viols[:5], len(viols))


def chain_case(item):
    """chained / converging / swapping rolls stepped by hand: whatever the order of the children and
    of the roll table, every position that matured before a call moves into its target at its
    factor exactly once, on the quantities held before the call"""
    bt = rt.bt()
    A = bt.algos
    fi, order, graph, mature, factors, row_order = item[:6]
    closes = item[6] if len(item) > 6 else {}
    pretrade = item[7] if len(item) > 7 else None
    integer = bool(item[8]) if len(item) > 8 else False
    idx = pd.bdate_range("2020-01-06", periods=5)
    data = pd.DataFrame({"c1": [1.0, 1.0, 2.0, 1.0, 0.5], "c2": [2.0, 2.0, 1.0, 2.0, 2.0], "c3": [1.0, 2.0, 1.0, 1.0, 2.0]}, index=idx, dtype=float)
    srcs = [k for k in row_order if k in graph]
    roll_data = pd.DataFrame({k: {"date": idx[mature[k]], "target": graph[k], "factor": factors[k]} for k in srcs}).T
    kids = [(bt.FixedIncomeSecurity if fi else bt.Security)(n) for n in order]
    close_data = pd.DataFrame({"date": [idx[v] for v in closes.values()]}, index=list(closes)) if closes else pd.DataFrame({"date": pd.to_datetime([])})
    s = (bt.FixedIncomeStrategy if fi else bt.Strategy)("r", [A.ClosePositionsAfterDates("closes"), A.RollPositionsAfterDates("rolls")], children=kids)
    # (whole-unit mode: quantities booked by transact / rolls are fractional all the same, and a
    # close-out closes them exactly)
    s.use_integer_positions(integer)
    s.setup(data, rolls=roll_data, closes=close_data)
    s.adjust(4096.0)
    s.update(idx[0])
    ref = {"c1": 8.0, "c2": 16.0, "c3": -4.0}
    if integer:
        ref = {"c1": 8.5, "c2": 16.25, "c3": -4.75}
    viols = []
    try:
        for k in order:
            s.transact(ref[k], k)
        s.update(idx[0])
        done = set()
        closed = set()
        for i in range(1, len(idx)):
            s.update(idx[i])
            if pretrade is not None:
                # a trade earlier in the same step that only marks the tree stale
                s.transact(pretrade[1], pretrade[0])
                ref[pretrade[0]] += pretrade[1]
            s.run()
            for k in closes:
                if k not in closed and closes[k] <= i:
                    closed.add(k)
                    ref[k] = 0.0
            pre = dict(ref)
            for k in srcs:
                if k not in done and mature[k] <= i:
                    done.add(k)
                    ref[k] -= pre[k]
                    ref[graph[k]] += factors[k] * pre[k]
            got = {k: float(s[k].position) for k in order}
            if not all(abs(got[k] - ref[k]) <= 1e-9 for k in order):
                viols.append({"rule": "positions_after_close_and_roll", "expected": {"date": str(idx[i]), "positions": dict(ref), "positions_before_call": pre}, "observed": got})
                break
    except Exception as e:
        if rt.classify(e) == "guard":
            return (1, [], 0)
        return (1, [{"rule": "crash", "observed": rt.describe(e)}], 1)
    return (1, viols, len(viols))


def replay(case):
    k = case["kind"]
    w = case["where"]
    if k == "risk":
        return risk_case(tuple(w))[1]
    if k == "hedge":
        return hedge_case((tuple(w[0]), tuple(w[1]), w[2], w[3], tuple(w[4]), w[5], w[6]))[1]
    if k == "chain":
        return chain_case((w[0], tuple(w[1]), dict(w[2]), dict(w[3]), dict(w[4]), tuple(w[5]), dict(w[6]), tuple(w[7]) if w[7] else None, w[8] if len(w) > 8 else False))[1]
    return close_roll_case((w[0], w[1], {k2: tuple(v) for k2, v in w[2].items()}, w[3], w[4]))[1]


def run(ctx):
    ctx.rule = "trees T1/T2 x multipliers x positions {0,4,-2} per security x unit-risk tables with a missing column per measure x history depth x dates; hedges with as many / fewer / more instruments than measures x instrument multiplier; every assignment of close and roll dates to two securities in real backtests; chained, converging and swapping rolls x child order x roll-table order x maturity dates x factors stepped by hand; a case is non-trivial if it was executed with at least one open position"
    ctx.assumptions += ["missing unit-risk column counts as zero", "HedgeRisks without pseudo-inverse is only judged with as many independent instruments as measures"]
    kinds = ["py"] if ctx.tier == "quick" else ["py", "cy"]
    risk = []
    for shape, nsec in (("T1", 2), ("T2", 4)):
        for mult in ({}, {"a": 2}):
            for positions in itertools.product((0.0, 4.0, -2.0), repeat=nsec):
                if shape == "T2" and ctx.tier == "quick" and (hash(positions) + ctx.seed) % 3:
                    continue
                for variant in (0, 1):
                    for history in (0, 1, 2):
                        risk.append((shape, mult, positions, variant, history, 2))
                if positions[0] == 0.0 and (shape == "T1" or positions[2] == 0.0):
                    risk.append((shape, mult, positions, 2, 1, 2))
                    if any(q != 0.0 for q in positions):
                        risk.append((shape, mult, positions, variant, 1, 3, 1))
                    if shape == "T2" and any(q != 0.0 for q in positions[:2]):
                        for history in (1, 2):
                            risk.append((shape, mult, positions, variant, history, 2, None, ["s1"]))
    hedge = []
    for measures in (("M1",), ("M2",), ("M1", "M2")):
        for instruments in (("h1",), ("h2",), ("h1", "h2"), ("h1", "h2", "h3"), ("h3", "h1")):
            for pseudo in (False, True):
                for hmult in (1, 2):
                    for positions in ((4.0, 0.0, 0.0), (4.0, -2.0, 0.0), (0.0, 4.0, -2.0), (-2.0, 4.0, 4.0)):
                        for variant in (0, 1):
                            for date_i in (1, 2, 3):
                                hedge.append((measures, instruments, pseudo, hmult, positions, variant, date_i))
    cr = []
    whens = ["before", 0, 1, 2, 3, 5, "after"]
    for fi in (False, True):
        for sa in (True, False):
            for w1 in whens:
                for w2 in whens:
                    cr.append((fi, {"c1": w1, "c2": w2}, {}, 1.0, sa))
            for w1 in whens:
                for w2 in whens:
                    for factor in (1.0, 0.5):
                        cr.append((fi, {}, {"c1": (w1, "n1"), "c2": (w2, "n1" if factor == 0.5 else "n2")}, factor, sa))
            for w1 in whens[1:6]:
                for w2 in whens[1:6]:
                    cr.append((fi, {"c1": w1}, {"c2": (w2, "n2")}, 2.0, sa))
    chain = []
    graphs = [{"c2": "c1", "c1": "c3"}, {"c1": "c2", "c2": "c3"}, {"c1": "c3", "c2": "c3"}, {"c1": "c2", "c2": "c1"}, {"c3": "c1"}]
    for fi in (False, True):
        for order in itertools.permutations(("c1", "c2", "c3")):
            for g in graphs:
                ks = sorted(g)
                for ms in itertools.product((0, 1, 2, 3), repeat=len(ks)):
                    for fs in ((1.0,) * len(ks), (0.5, 2.0)[: len(ks)]):
                        for ro in (tuple(ks), tuple(reversed(ks))):
                            if len(ks) == 1 and ro != tuple(ks):
                                continue
                            chain.append((fi, order, g, dict(zip(ks, ms)), dict(zip(ks, fs)), ro, {}, None))
        # closes next to rolls, and a same-step trade before the stack that only marks the tree stale
        for order in (("c1", "c2", "c3"), ("c3", "c2", "c1")):
            for g in graphs[:1] + graphs[4:] + [{}]:
                ks = sorted(g)
                for ms in itertools.product((1, 3), repeat=len(ks)):
                    for cl in ({"c2": 1}, {"c2": 2, "c3": 2}, {"c1": 3}, {"c3": 1}):
                        if any(k in g for k in cl):
                            continue
                        for pre in (None, ("c2", 4.0), ("c3", -2.0), ("c1", -12.0)):
                            chain.append((fi, order, g, dict(zip(ks, ms)), dict(zip(ks, (0.5, 2.0))), tuple(ks), cl, pre))
                            if pre is None or pre[0] == "c2":
                                chain.append((fi, order, g, dict(zip(ks, ms)), dict(zip(ks, (0.5, 2.0))), tuple(ks), cl, pre, True))
    ctx.bounds = {"chain_roll_cases": len(chain), "risk_cases": len(risk), "hedge_cases": len(hedge), "close_roll_cases": len(cr), "builds": kinds}
    for kind in kinds:
        for item, (n, viols, nv) in ctx.run(kind, MOD, "risk_case", risk, chunksize=8):
            ctx.add(states=1, transitions=n, traces_validated_against_impl=n, evaluations=n)
            if any(q != 0 for q in item[2]):
                ctx.nontrivial_count += 1
            for v in viols:
                ctx.violation(dict(v, build=kind, module=MOD, case={"kind": "risk", "where": list(item)}))
        for item, (n, viols, nv) in ctx.run(kind, MOD, "hedge_case", hedge, chunksize=8):
            ctx.add(states=1, transitions=n, traces_validated_against_impl=n, evaluations=n)
            ctx.nontrivial_count += 1
            for v in viols:
                ctx.violation(dict(v, build=kind, module=MOD, case={"kind": "hedge", "where": [list(item[0]), list(item[1]), item[2], item[3], list(item[4]), item[5], item[6]]}))
        for item, (n, viols, nv) in ctx.run(kind, MOD, "close_roll_case", cr, chunksize=4):
            ctx.add(states=1, transitions=n, traces_validated_against_impl=n, evaluations=n)
            ctx.nontrivial_count += 1
            for v in viols:
                ctx.violation(dict(v, build=kind, module=MOD, case={"kind": "close_roll", "where": [item[0], item[1], {k: list(x) for k, x in item[2].items()}, item[3], item[4]]}))
        for item, (n, viols, nv) in ctx.run(kind, MOD, "chain_case", chain, chunksize=16):
            ctx.add(states=1, transitions=4 * n, traces_validated_against_impl=n, evaluations=4 * n)
            ctx.nontrivial_count += 1
            for v in viols:
                ctx.violation(dict(v, build=kind, module=MOD, case={"kind": "chain", "where": [item[0], list(item[1]), item[2], item[3], item[4], list(item[5]), item[6], list(item[7]) if item[7] else None, item[8] if len(item) > 8 else False]}))
    ctx.sample({"risk_case": [str(x) for x in risk[len(risk) // 2]]})
    ctx.sample({"hedge_case": [str(x) for x in hedge[len(hedge) // 2]]})
    ctx.sample({"close_roll_case": [str(x) for x in cr[len(cr) // 2]]})
