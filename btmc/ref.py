"""Reference oracles: pure Python over snapshots/histories (no pandas, no bt)."""
import math


def tol(scale, *xs):
    return 1e-9 * max([1.0, abs(scale)] + [abs(x) for x in xs if isinstance(x, float) and x == x and not math.isinf(x)])


def near(a, b, scale=1.0):
    if a != a or b != b:
        return (a != a) and (b != b)
    if math.isinf(a) or math.isinf(b):
        return a == b
    return abs(a - b) <= tol(scale, a, b)


def balance_sheet(snap, scale):
    """C01 identities on one observed snapshot of a market-value tree.
    Returns list of (rule, node, expected, observed)."""
    out = []
    for name in snap["__order__"]:
        n = snap[name]
        if n["kind"] == "S":
            kids = [snap[c] for c in n["children"]]
            exp = n["capital"] + sum(k["value"] for k in kids)
            if not near(n["value"], exp, scale):
                out.append(("strategy_value", name, exp, n["value"]))
            if n.get("fi"):
                continue  # notional weights: C17
            v = n["value"]
            wsum = 0.0
            for k, cname in zip(kids, n["children"]):
                if v == 0.0 or abs(v) < 1e-16:
                    ew = 0.0
                elif abs(v) < tol(scale):
                    continue  # float dust in the denominator: quotient not defined to tolerance
                else:
                    ew = k["value"] / v
                wsum += k["weight"]
                if not near(k["weight"], ew, 1.0) and abs(k["weight"] - ew) * abs(v) > tol(scale, k["value"]):
                    out.append(("child_weight", cname, ew, k["weight"]))
            if abs(v) >= tol(scale) and kids:
                tot = wsum + n["capital"] / v
                if abs(tot - 1.0) * abs(v) > 4 * tol(scale, v) and abs(tot - 1.0) > 1e-9:
                    out.append(("weights_sum", name, 1.0, tot))
        else:
            p = n["price"]
            if p != p:
                exp = 0.0 if n["position"] == 0 else float("nan")
            else:
                exp = n["position"] * p * n["mult"]
            if not near(n["value"], exp, scale):
                out.append(("security_value", name, exp, n["value"]))
    return out
