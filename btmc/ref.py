"""Reference oracles: pure Python over snapshots/histories (no pandas, no bt)."""
import math


def tol(scale, *xs):
    return 1e-9 * max([1.0, abs(scale)] + [abs(x) for x in xs if isinstance(x, float) and x == x and not math.isinf(x)])


def near(a, b, scale=1.0):
    if a != a or b != b:
        return (a != a) and (b != b)
    if math.isinf(a) or math.isinf(b):
        return a == b
    return abs(a - b) <= tol(scale, a, b)


def balance_sheet(snap, scale):
    """C01 identities on one observed snapshot of a market-value tree.
    Returns list of (rule, node, expected, observed)."""
    out = []
    for name in snap["__order__"]:
        n = snap[name]
        if n["kind"] == "S":
            kids = [snap[c] for c in n["children"]]
            exp = n["capital"] + sum(k["value"] for k in kids)
            if not near(n["value"], exp, scale):
                out.append(("strategy_value", name, exp, n["value"]))
            if n.get("fi"):
                continue  # notional weights: C17
            v = n["value"]
            wsum = 0.0
            for k, cname in zip(kids, n["children"]):
                if v == 0.0 or abs(v) < 1e-16:
                    ew = 0.0
                elif abs(v) < tol(scale):
                    continue  # float dust in the denominator: quotient not defined to tolerance
                else:
                    ew = k["value"] / v
                wsum += k["weight"]
                if not near(k["weight"], ew, 1.0) and not (abs(k["weight"] - ew) * abs(v) <= tol(scale, k["value"])):
                    out.append(("child_weight", cname, ew, k["weight"]))
            if abs(v) >= tol(scale) and kids:
                tot = wsum + n["capital"] / v
                if not (abs(tot - 1.0) * abs(v) <= 4 * tol(scale, v)) and not (abs(tot - 1.0) <= 1e-9):
                    out.append(("weights_sum", name, 1.0, tot))
        else:
            p = n["price"]
            if p != p:
                exp = 0.0 if n["position"] == 0 else float("nan")
            else:
                exp = n["position"] * p * n["mult"]
            if not near(n["value"], exp, scale):
                out.append(("security_value", name, exp, n["value"]))
    return out


# ----------------------------------------------------------------------
# C05: brute-force sizing reference


def trade_cost(q, p, m, spread, fee):
    """total cost of trading q units (cost(0) = 0)"""
    if q == 0:
        return 0.0
    c = q * p * m + abs(q) * 0.5 * (spread or 0.0) * m
    if fee is not None:
        c += fee(q, p * m)
    return c


def fee_in_domain(p, m, spread, fee, qmax=64):
    """non-decreasing in size, marginal and fixed part below unit price minus half spread"""
    unit = p * m - 0.5 * (spread or 0.0) * m
    if unit <= 0:
        return False
    if fee is None:
        return True
    prev = 0.0
    for sign in (1, -1):
        prev = 0.0
        for n in list(range(1, 9)) + [16, 17, 63, 64, 1000, 1001]:
            f = fee(sign * n, p * m)
            if f < 0 or f + 1e-12 < prev and n not in (16, 63, 1000):
                return False
            prev = f
        if not fee(sign * 1, p * m) < unit:
            return False
        for n in (1, 2, 3, 8, 16, 63, 1000):
            if not (fee(sign * (n + 1), p * m) - fee(sign * n, p * m)) < unit:
                return False
    return True


def largest_affordable(amount, p, m, spread, fee):
    """max{q in Z : cost(q) <= amount}; cost is strictly increasing in q inside the domain"""
    hi = int(math.floor(amount / (p * m))) + 2
    if trade_cost(hi, p, m, spread, fee) <= amount:
        # should not happen inside the domain (cost(q) >= q*p*m), but stay exact: walk up
        while trade_cost(hi + 1, p, m, spread, fee) <= amount:
            hi += 1
        return hi
    step = 1
    lo = hi - 1
    while trade_cost(lo, p, m, spread, fee) > amount:
        step *= 2
        lo = hi - step
        if step > 1 << 40:
            return None
    # invariant: cost(lo) <= amount < cost(hi)
    while hi - lo > 1:
        mid = (lo + hi) // 2
        if trade_cost(mid, p, m, spread, fee) <= amount:
            lo = mid
        else:
            hi = mid
    return lo
