"""Re-execute one violation from its replay file, with no explorer involved.

    /venv/bin/python -m btmc.replay /verif/replays/C06-xxxx.json

Rebuilds the build named in the file from /repo's current working tree (or
$BTMC_SRC), calls the property module's `replay(case)` and prints expected vs
observed.  exit 1 if the violation reproduces, 0 if it does not.
"""
import importlib
import json
import os
import sys


def main():
    args = [a for a in sys.argv[1:] if not a.startswith("--")]
    quiet = "--quiet" in sys.argv
    if os.environ.get("PYTHONHASHSEED") != "0":
        env = dict(os.environ)
        env["PYTHONHASHSEED"] = "0"
        env["MPLBACKEND"] = "Agg"
        env["PYTHONWARNINGS"] = "ignore"
        os.execve(sys.executable, [sys.executable, "-m", "btmc.replay"] + sys.argv[1:], env)
    from . import build, rt

    with open(args[0]) as f:
        v = json.load(f)
    kind = v.get("build", "py")
    d = build.make(kind)
    rt.init(d, kind)
    mod = importlib.import_module(v["module"])
    out = mod.replay(v["case"])
    same = [o for o in out if o.get("rule") == v.get("rule")]
    if not quiet:
        print("property:", v.get("property"), " rule:", v.get("rule"), " build:", kind)
        print("case:", json.dumps(v.get("case"), default=str)[:2000])
        print("recorded expected:", json.dumps(v.get("expected"), default=str)[:800])
        print("recorded observed:", json.dumps(v.get("observed"), default=str)[:800])
        for o in same[:3]:
            print("replayed expected:", json.dumps(o.get("expected"), default=str)[:800])
            print("replayed observed:", json.dumps(o.get("observed"), default=str)[:800])
    print("REPRODUCED" if same else "NOT-REPRODUCED", json.dumps([[o.get("rule"), o.get("observed")] for o in same[:1]], default=str)[:400])
    build._cleanup()
    sys.exit(1 if same else 0)


if __name__ == "__main__":
    main()
