"""Wrap replay files as plain unit tests (no explorer involved):

    /venv/bin/python -m pytest -q btmc/replay_test.py            # every file under /verif/replays
    BTMC_REPLAY=/verif/replays/C06-xxxx.json /venv/bin/python -m pytest -q btmc/replay_test.py

A test passes when the recorded violation does NOT reproduce on the current tree."""
import glob
import os
import subprocess

import pytest

ROOT = os.path.dirname(os.path.dirname(os.path.abspath(__file__)))
FILES = [os.environ["BTMC_REPLAY"]] if os.environ.get("BTMC_REPLAY") else sorted(glob.glob(os.path.join(ROOT, "replays", "*.json")))


@pytest.mark.parametrize("path", FILES or [None])
def test_replay(path):
    if path is None:
        pytest.skip("no replay files")
    r = subprocess.run(["/venv/bin/python", "-m", "btmc.replay", path], cwd=ROOT, capture_output=True, text=True)
    assert r.returncode == 0, r.stdout[-2000:]
