"""Run-time helpers used inside worker processes (and the replay tool)."""
import ast
import os
import random
import sys
import traceback
import warnings

_state = {"dir": None, "kind": None, "bt": None, "stmts": {}}


def init(build_dir, kind):
    """Called once per worker process: import bt from exactly one build."""
    from . import build

    warnings.simplefilter("ignore")
    os.environ.setdefault("MPLBACKEND", "Agg")
    _state["bt"] = build.activate(build_dir, kind)
    _state["dir"] = build_dir
    _state["kind"] = kind
    import numpy as np

    np.seterr(all="ignore")
    seed_rng(0)


def bt():
    b = _state["bt"]
    if b is None:
        raise RuntimeError("btmc.rt.init was not called in this process")
    return b


def kind():
    return _state["kind"]


def seed_rng(k):
    import numpy as np

    random.seed(k)
    np.random.seed(k)


def _raise_lines(path):
    """line -> True if the innermost statement covering that line is a `raise`."""
    if path in _state["stmts"]:
        return _state["stmts"][path]
    table = {}
    try:
        with open(path) as f:
            tree = ast.parse(f.read())
        spans = []
        for node in ast.walk(tree):
            if isinstance(node, ast.stmt):
                spans.append((node.lineno, getattr(node, "end_lineno", node.lineno), isinstance(node, ast.Raise)))
        # innermost = smallest span
        spans.sort(key=lambda s: (s[1] - s[0]))
        for lo, hi, israise in reversed(spans):
            for ln in range(lo, hi + 1):
                table[ln] = israise
    except Exception:
        pass
    _state["stmts"][path] = table
    return table


def _source_for(filename):
    """Map a traceback filename to the source copy of the build under test."""
    base = os.path.basename(filename)
    if base not in ("core.py", "algos.py", "backtest.py"):
        return None
    d = _state["dir"]
    if d is None:
        return None
    norm = filename.replace("\\", "/")
    if not (norm.startswith(d) or norm.startswith("bt/") or "/bt/" in norm):
        return None
    if os.path.isabs(norm) and not norm.startswith(d):
        return None
    for cand in (os.path.join(d, "bt", base), os.path.join(d, "src", base)):
        if os.path.exists(cand):
            return cand
    from . import build

    return os.path.join(build.source_root(), "bt", base)


def classify(exc):
    """'guard' when the exception comes from an explicit `raise` statement of bt
    itself (a documented refusal, DESIGN 1.6), else 'crash'.  Message-independent."""
    tb = exc.__traceback__
    frames = traceback.extract_tb(tb)
    if not frames:
        return "crash"
    last = frames[-1]
    src = _source_for(last.filename)
    if src is None:
        return "crash"
    table = _raise_lines(src)
    return "guard" if table.get(last.lineno, False) else "crash"


def _funcs(path):
    """[(name, lo, hi, [raise linenos])] for every function in the file"""
    key = ("funcs", path)
    if key in _state["stmts"]:
        return _state["stmts"][key]
    out = []
    try:
        with open(path) as f:
            tree = ast.parse(f.read())
        for cls in ast.walk(tree):
            if isinstance(cls, ast.ClassDef):
                for fn in cls.body:
                    if isinstance(fn, (ast.FunctionDef,)):
                        rs = sorted(n.lineno for n in ast.walk(fn) if isinstance(n, ast.Raise))
                        spans = sorted((n.lineno, getattr(n, "end_lineno", n.lineno)) for n in ast.walk(fn) if isinstance(n, ast.Raise))
                        out.append(("%s.%s" % (cls.name, fn.name), fn.lineno, fn.end_lineno, spans))
    except Exception:
        pass
    _state["stmts"][key] = out
    return out


def guard_id(exc):
    """'Class.function#k' - which explicit raise statement (k-th in source order within the
    function) produced this guard; None if it is not a guard."""
    frames = traceback.extract_tb(exc.__traceback__)
    if not frames:
        return None
    last = frames[-1]
    src = _source_for(last.filename)
    if src is None or not _raise_lines(src).get(last.lineno, False):
        return None
    for name, lo, hi, spans in _funcs(src):
        if lo <= last.lineno <= hi:
            for k, (a, b) in enumerate(spans):
                if a <= last.lineno <= b:
                    return "%s#%d" % (name, k)
    return "%s:%d" % (os.path.basename(src), last.lineno)


def describe(exc):
    frames = traceback.extract_tb(exc.__traceback__)
    where = ""
    if frames:
        f = frames[-1]
        where = "%s:%s" % (os.path.basename(f.filename), f.lineno)
    return "%s: %s @ %s" % (type(exc).__name__, str(exc)[:160], where)


def node_path(n):
    """the driver's own walk to the root (not the node's full_name attribute)"""
    names = [n.name]
    while n.parent is not n:
        n = n.parent
        names.append(n.name)
    return ">".join(reversed(names))
