"""Per-run oracles over finished backtests of the run family (C02, C03, C07, C10, C18 share them)."""
import contextlib
import io
import math
import os

import numpy as np
import pandas as pd

from . import ledger, ref, rt, runfam as R, tree as T

SIZING_GUARDS = ("SecurityBase.allocate#2", "SecurityBase.allocate#3", "SecurityBase.allocate#4")


def execute(spec):
    """-> dict(status=ok|guard|crash, b, info, hist, trades, err, guard, failed_alloc)"""
    ledger.install_trade_spy()
    ledger.install_alloc_spy()
    ledger.clear_trades()
    ledger.take_failed_alloc()
    out = {"status": "ok"}
    try:
        b, info = R.run(spec)
        out.update(b=b, info=info)
        out["hist"] = R.run_histories(b)
        out["trades"] = ledger.trades_of_root(b.strategy)
    except Exception as e:
        out["status"] = rt.classify(e)
        out["err"] = rt.describe(e)
        out["guard"] = rt.guard_id(e)
        out["failed_alloc"] = ledger.take_failed_alloc()
    ledger.clear_trades()
    return out


def known_dead(spec, res):
    """a run that dies of the known finding C10-LIMITWEIGHTS-NAN (ffn.limit_weights returns NaN behind
    WeighMeanVar): C10 reports it; the other family checks leave it alone"""
    st = spec.get("stack") or {}
    return res.get("status") == "crash" and st.get("weigh") == "meanvar" and st.get("mod") == "limitweights" and str(res.get("err", "")).startswith("ValueError")


def sizing_defect(spec, res):
    """True if the run died in a sizing-search guard on a request that the brute-force
    reference can satisfy (the known C05 defect seen from a run)."""
    if res.get("guard") not in SIZING_GUARDS:
        return False
    c = res.get("failed_alloc")
    if not c or "price" not in c:
        return False
    fee = T.fee_fn(spec.get("fee"))
    if not ref.fee_in_domain(c["price"], c["mult"], c["spread"], fee):
        return False
    if c["integer"]:
        return ref.largest_affordable(c["amount"], c["price"], c["mult"], c["spread"], fee) is not None
    return True


def sizing_sig(spec, res):
    """identifies the failing allocate request itself (not the run it happened in)"""
    c = res["failed_alloc"]
    return "sizing-guard|%s|p=%r|m=%r|pos=%r|amount=%r|spread=%r|fee=%s|int=%s" % (res["guard"], c["price"], c["mult"], c["position"], c["amount"], c["spread"], spec.get("fee"), c["integer"])


def val(h, name, series, i):
    if i < 0:
        return 0.0
    vals = h[name][series][1]
    return vals[i] if i < len(vals) else 0.0


def nodes(h, kind):
    return [n for n in h if h[n]["__kind__"] == kind]


def children(h, name, kind):
    return [n for n in h if h[n]["__parent__"] == name and h[n]["__kind__"] == kind]


def expected_root_flows(spec, res):
    """the driver's own tally: initial capital on the synthetic row, CapitalFlow amount on tap dates"""
    b = res["b"]
    labels = res["hist"][R.node_path(b.strategy)]["flows"][0]
    exp = [0.0] * len(labels)
    exp[0] = float(spec.get("capital", 1000000.0))
    fl = (spec.get("stack") or {}).get("flow")
    if fl is not None and spec.get("tree", "flat").startswith("flat"):
        for d in R.taps(b.strategy, "flow"):
            if d in labels:
                exp[labels.index(d)] += float(fl)
    return exp


def check_ledgers(prop, spec, res):
    """C02 / C03 / C07 per-date reconciliation on every date of a finished run."""
    out = []
    h = res["hist"]
    b = res["b"]
    root = R.node_path(b.strategy)
    scale = float(spec.get("capital", 1e6))
    n = len(h[root]["values"][1])
    strategies = nodes(h, "S")
    secs = nodes(h, "X")
    fee = T.fee_fn(spec.get("fee"))
    labels = h[root]["values"][0]
    if prop == "C07":
        # executed trades grouped by (owner, date) / (security, date)
        by_owner, by_sec = {}, {}
        data = res["info"]["data"]
        dlabels = [str(x) for x in data.index]
        for full, owner, ticker, q, price, m, when in res["trades"]:
            p = float(data[ticker].values[dlabels.index(when)]) if when in dlabels else float("nan")
            if price is None:
                outlay = q * p * m + abs(q) * 0.5 * float(spec.get("spread") or 0.0) * m
                fe = fee(q, p * m) if fee else 0.0
            else:
                outlay = q * price * m
                fe = fee(q, price * m) if fee else 0.0
            a = by_owner.setdefault((owner, when), [0.0, 0.0])
            a[0] += outlay
            a[1] += fe
            by_sec[(full, when)] = by_sec.get((full, when), 0.0) + outlay
        for i in range(n):
            for s in strategies:
                own = children(h, s, "X")
                kids = children(h, s, "S")
                d = val(h, s, "cash", i) - val(h, s, "cash", i - 1)
                exp = val(h, s, "flows", i) - sum(val(h, c, "outlays", i) for c in own) - val(h, s, "fees", i) - sum(val(h, c, "flows", i) for c in kids)
                if not ref.near(d, exp, scale):
                    out.append({"rule": "cash_ledger_date", "expected": {"node": s, "date": labels[i], "delta_cash": exp}, "observed": d})
                o, f = by_owner.get((s, labels[i]), (0.0, 0.0))
                if not ref.near(val(h, s, "fees", i), f, scale):
                    out.append({"rule": "fee_booked", "expected": {"node": s, "date": labels[i], "fees": f}, "observed": val(h, s, "fees", i)})
            for x in secs:
                o = by_sec.get((x, labels[i]), 0.0)
                if not ref.near(val(h, x, "outlays", i), o, scale):
                    out.append({"rule": "outlay_booked", "expected": {"node": x, "date": labels[i], "outlay": o}, "observed": val(h, x, "outlays", i)})
        exp_fl = expected_root_flows(spec, res)
        for i in range(n):
            if not ref.near(val(h, root, "flows", i), exp_fl[i], scale):
                out.append({"rule": "trade_counted_as_flow", "expected": {"date": labels[i], "root_flows": exp_fl[i]}, "observed": val(h, root, "flows", i)})
    if prop == "C02":
        for i in range(1, n):
            d = val(h, root, "values", i) - val(h, root, "values", i - 1)
            mtm = 0.0
            spreads = 0.0
            for x in secs:
                pos0 = val(h, x, "positions", i - 1)
                if pos0 != 0.0:
                    mtm += pos0 * (val(h, x, "prices", i) - val(h, x, "prices", i - 1)) * h[x]["__mult__"]
                if "bidoffers_paid" in h[x]:
                    spreads += val(h, x, "bidoffers_paid", i)
            fees = sum(val(h, s, "fees", i) for s in strategies)
            exp = mtm + val(h, root, "flows", i) - fees - spreads
            if not ref.near(d, exp, scale):
                out.append({"rule": "pnl_attribution_date", "expected": {"date": labels[i], "delta_value": exp, "mtm": mtm, "fees": fees, "spreads": spreads, "flows": val(h, root, "flows", i)}, "observed": d})
    if prop == "C03":
        exp_fl = expected_root_flows(spec, res)
        if not ref.near(val(h, root, "prices", 0), 100.0, 100.0):
            out.append({"rule": "index_starts_at_100", "expected": 100.0, "observed": val(h, root, "prices", 0)})
        for i in range(1, n):
            if not ref.near(val(h, root, "flows", i), exp_fl[i], scale):
                out.append({"rule": "flow_not_recorded", "expected": {"date": labels[i], "flows": exp_fl[i]}, "observed": val(h, root, "flows", i)})
            base = val(h, root, "values", i - 1) + exp_fl[i]
            if abs(base) > 1e-16:
                exp = val(h, root, "prices", i - 1) * val(h, root, "values", i) / base
                if not ref.near(val(h, root, "prices", i), exp, 100.0):
                    out.append({"rule": "index_recurrence_date", "expected": {"date": labels[i], "price": exp}, "observed": val(h, root, "prices", i)})
    return out


def run_ledger_case(item):
    """worker: item = (prop, spec) -> (status, viols, nontrivial_key)"""
    prop, spec = item
    res = execute(spec)
    if res["status"] == "guard":
        return ("refused", [], None)
    if res["status"] == "crash":
        st = spec.get("stack") or {}
        if st.get("weigh") == "meanvar" and st.get("mod") == "limitweights" and res["err"].startswith("ValueError"):
            # ffn.limit_weights returns NaN behind WeighMeanVar: the known finding C10-LIMITWEIGHTS-NAN, reported by C10
            return ("refused", [], None)
        return ("crash", [{"rule": "crash", "observed": res["err"], "expected": "a well-formed run completes"}], None)
    viols = check_ledgers(prop, spec, res)
    ntr = len(res["trades"])
    return ("ok", viols, ntr)


def run_scaled_case(item):
    """C03: the index does not depend on the amount of capital (fractional positions,
    size-proportional costs).  item = spec ; runs capital x {1/1000, 1, 64}."""
    spec = item
    series = []
    for k in (0.001, 1.0, 64.0):
        sp = dict(spec)
        sp["capital"] = float(spec.get("capital", 1e6)) * k
        st = dict(sp.get("stack") or {})
        if st.get("flow") is not None:
            st["flow"] = float(st["flow"]) * k
        sp["stack"] = st
        res = execute(sp)
        if res["status"] == "guard":
            return ("refused", [], None)
        if res["status"] == "crash":
            st0 = spec.get("stack") or {}
            if st0.get("weigh") == "meanvar" and st0.get("mod") == "limitweights" and res["err"].startswith("ValueError"):
                return ("refused", [], None)  # (the known finding C10-LIMITWEIGHTS-NAN)
            return ("crash", [{"rule": "crash", "observed": res["err"]}], None)
        root = R.node_path(res["b"].strategy)
        series.append(res["hist"][root]["prices"][1])
        # the recurrence divides by (previous value + flows): a run that is drained to (nearly) nothing or
        # below makes that base tiny and the index ill-conditioned - no statement about 1e-9 there
        vv, ff = res["hist"][root]["values"][1], res["hist"][root]["flows"][1]
        cap_k = abs(float(sp["capital"]))
        if any(abs(vv[i - 1] + ff[i]) < 1e-2 * cap_k for i in range(2, len(vv))) or any(x < 0 for x in vv):
            return ("refused", [], None)
    viols = []
    base = series[1]
    for k, s in zip((0.001, 64.0), (series[0], series[2])):
        for i, (x, y) in enumerate(zip(base, s)):
            if not (abs(x - y) <= 1e-9 * max(1.0, abs(x))):
                viols.append({"rule": "scale_invariance", "expected": {"i": i, "price_at_capital_x1": x}, "observed": {"factor": k, "price": y}})
                break
    moved = sum(1 for x in base if abs(x - 100.0) > 1e-9)
    return ("ok", viols, moved)


# ----------------------------------------------------------------------
# master side


def check_family(ctx, prop, kinds=None):
    fam = R.family(ctx.tier, ctx.seed)
    kinds = kinds or (["py"] if ctx.tier == "quick" else ["py", "cy"])
    mod = "btmc.props.%s" % prop.lower()
    for kind in kinds:
        use = fam if kind == "py" else fam[:: 4]
        ok = refused = 0
        for (_p, spec), (status, viols, ntr) in ctx.run(kind, "btmc.runcheck", "run_ledger_case", [(prop, s) for s in use], chunksize=4):
            ctx.add(transitions=1, traces_validated_against_impl=1, evaluations=1)
            if status == "refused":
                refused += 1
                ctx.add(refused=1)
                continue
            for v in viols:
                ctx.violation(dict(v, build=kind, module=mod, case={"driver": "run", "spec": spec}))
            if status == "ok":
                ok += 1
                ctx.add(states=1)
                if ntr:
                    ctx.mark(("run", kind, _key(spec)))
        ctx.extra.setdefault("run_family", []).append({"build": kind, "runs": len(use), "completed": ok, "refused_by_guards": refused})
        if use and ok < 0.6 * len(use):
            ctx.violation({"rule": "vacuity", "build": kind, "observed": "only %d of %d runs of the family completed" % (ok, len(use)), "expected": ">= 60%"})
    ctx.sample({"run_spec": fam[len(fam) // 3]})
    if prop == "C03":
        sc = [s for s in fam if not s["integer"] and s.get("fee") in (None, "propdec", "prop")]
        if ctx.tier == "quick":
            base = [s for s in R.family("quick", ctx.seed) if s["tree"] == "flat"]
            sc += [dict(s, integer=False, fee="propdec", spread=0.5 if i % 2 else None) for i, s in enumerate(base[::3])]
            nest = [s for s in fam if s["tree"] == "nested"]
            sc += [dict(s, integer=False, fee="propdec", spread=None) for s in nest[::4]]
        n_ok = 0
        for spec, (status, viols, moved) in ctx.run("py", "btmc.runcheck", "run_scaled_case", sc, chunksize=2):
            ctx.add(transitions=3, traces_validated_against_impl=3, evaluations=1)
            if status == "refused":
                ctx.add(refused=1)
                continue
            for v in viols:
                ctx.violation(dict(v, build="py", module=mod, case={"driver": "scaled", "spec": spec}))
            if status == "ok":
                n_ok += 1
                if moved:
                    ctx.mark(("scaled", _key(spec)))
        ctx.extra["scaled_triples"] = {"specs": len(sc), "completed": n_ok}


def _key(spec):
    import json

    return json.dumps(spec, sort_keys=True, default=str)


def replay(prop, case):
    if case.get("driver") == "scaled":
        return run_scaled_case(case["spec"])[1]
    status, viols, _ = run_ledger_case((prop, case["spec"]))
    return viols
