"""RunDriver and the bounded run family R (DESIGN 3.3, 4).

A run spec is a JSON-able dict; build(spec) returns a real bt.Backtest made of
stock algos.  Menus contain every stock algo at least once.
"""
import math

import numpy as np
import pandas as pd

from . import rt, tree as T

# ----------------------------------------------------------------------
# data


def _path(start, seed, n, lo=2.0):
    """dyadic pseudo-random walk (deterministic LCG), steps are multiples of 1/4"""
    steps = [-0.75, -0.5, -0.25, 0.25, 0.5, 0.75, 1.0, -1.0]
    x = start
    out = []
    s = seed
    for _ in range(n):
        out.append(x)
        s = (s * 1103515245 + 12345) % (2**31)
        x = x + steps[(s >> 16) % len(steps)]
        if x < lo:
            x = lo + 0.5
    return out


def dates(name):
    if name == "d6":
        return pd.DatetimeIndex(["2019-12-27", "2019-12-30", "2019-12-31", "2020-01-02", "2020-01-03", "2020-01-06"])
    if name == "d25":
        return pd.bdate_range("2019-12-16", periods=25)
    if name == "d12":
        return pd.bdate_range("2019-12-23", periods=12)
    raise KeyError(name)


def table(name, alpha="exact", late=True):
    idx = dates(name)
    n = len(idx)
    a = _path(8.0, 7, n)
    b = _path(4.0, 11, n)
    c = _path(16.0, 5, n, lo=4.0)
    d = _path(6.0, 3, n)
    if alpha == "decimal":
        a = [x * 1.013 + 0.07 for x in a]
        b = [x * 0.987 + 0.013 for x in b]
        c = [x * 1.1 + 0.003 for x in c]
        d = [x * 0.93 + 0.11 for x in d]
    if alpha == "const":
        # prices that never move: every trade comes from the targets alone
        a, b, c, d = [8.0] * n, [4.0] * n, [16.0] * n, [6.0] * n
    df = pd.DataFrame({"a": a, "b": b, "c": c, "d": d}, index=idx, dtype=float)
    if late:
        k = 2 if n <= 6 else 5
        df.iloc[:k, 2] = 0.0 if late == "zero" else np.nan  # c is listed late (a vendor may quote 0 before)
    return df


# ----------------------------------------------------------------------
# menus (names -> lists of freshly constructed algos)


class SetCash(object):
    """temp['cash'] modifier (documented input of Rebalance)"""

    def __init__(self, c):
        self.c = c

    def __call__(self, target):
        target.temp["cash"] = self.c
        return True


class Tap(object):
    """records the dates on which the stack reached this point (the driver's own tally)"""

    def __init__(self, tag):
        self.tag = tag
        self.dates = []

    def __call__(self, target):
        self.dates.append(str(target.now))
        return True


def taps(strategy, tag):
    out = []

    def walk(a):
        if isinstance(a, Tap) and a.tag == tag:
            out.extend(a.dates)
        for sub in list(getattr(a, "algos", ())) + list(getattr(a, "_list_of_algos", ())):
            walk(sub)

    walk(strategy.stack)
    return out


def gate(name, idx):
    A = rt.bt().algos
    d = list(idx)
    m = {
        "once": lambda: [A.RunOnce()],
        "daily": lambda: [A.RunDaily()],
        "weekly": lambda: [A.RunWeekly()],
        "weekly_end": lambda: [A.RunWeekly(run_on_first_date=False, run_on_end_of_period=True, run_on_last_date=True)],
        "monthly": lambda: [A.RunMonthly()],
        "monthly_end": lambda: [A.RunMonthly(run_on_end_of_period=True)],
        "quarterly": lambda: [A.RunQuarterly()],
        "yearly": lambda: [A.RunYearly()],
        "ondate": lambda: [A.RunOnDate(d[min(2, len(d) - 1)], d[min(4, len(d) - 1)])],
        "afterdate": lambda: [A.RunAfterDate(d[1])],
        "afterdays": lambda: [A.RunAfterDays(2)],
        "everyn": lambda: [A.RunEveryNPeriods(2, offset=1)],
        "or": lambda: [A.Or([A.RunMonthly(), A.RunOnDate(d[min(3, len(d) - 1)])])],
        "not": lambda: [A.Not(A.RunAfterDate(d[min(3, len(d) - 1)]))],
        "warm": lambda: [A.RunAfterDays(4), A.RunWeekly()],
    }
    if name == "pte":
        # rebalance when the tracking error against fixed target weights exceeds a cap (reads
        # target.positions before that bar's trades)
        tw = pd.DataFrame({"a": 0.5, "b": 0.25, "d": 0.25}, index=idx)
        return [A.Or([A.RunOnce(), A.PTE_Rebalance(0.02, tw, lookback=pd.DateOffset(days=9))])]
    return m[name]()


GATES = ["daily", "once", "weekly", "weekly_end", "monthly", "monthly_end", "quarterly", "yearly", "ondate", "afterdate", "afterdays", "everyn", "or", "not", "pte"]
CAL_GATES = ["daily", "weekly", "weekly_end", "monthly", "monthly_end", "quarterly", "yearly"]


def select(name):
    bt = rt.bt()
    A = bt.algos
    D = pd.DateOffset
    m = {
        "all": lambda: [A.SelectAll()],
        "these": lambda: [A.SelectThese(["a", "b"])],
        "hasdata": lambda: [A.SelectHasData(lookback=D(days=4), min_count=2)],
        "momentum": lambda: [A.SelectAll(), A.SelectMomentum(2, lookback=D(days=4))],
        "momentum_lag": lambda: [A.SelectAll(), A.SelectMomentum(1, lookback=D(days=3), lag=D(days=1), sort_descending=False)],
        "statn": lambda: [A.SelectAll(), A.SetStat("stat"), A.SelectN(2, filter_selected=True)],
        "statn_lag": lambda: [A.SelectAll(), A.SetStat("stat", lag=D(days=1)), A.SelectN(0.5, filter_selected=True)],
        "statn_sparse": lambda: [A.SelectAll(), A.SetStat("stat_sparse", lag=D(days=1)), A.SelectN(2, filter_selected=True)],
        "where": lambda: [A.SelectWhere("signal")],
        "randomly": lambda: [A.SelectAll(), A.SelectRandomly(2)],
        # no selector in front, and more names asked for than are priced while a ticker is not yet listed
        "randomly_raw": lambda: [A.SelectRandomly(4)],
        "regex": lambda: [A.SelectAll(), A.SelectRegex("^[ab]$")],
        "types": lambda: [A.SelectAll(), A.SelectTypes(include_types=(bt.core.SecurityBase,))],
    }
    return m[name]()


SELECTS = ["all", "these", "hasdata", "momentum", "momentum_lag", "statn", "statn_lag", "statn_sparse", "where", "randomly", "randomly_raw", "regex", "types"]


def weigh(name):
    A = rt.bt().algos
    D = pd.DateOffset
    m = {
        "equal": lambda: [A.WeighEqually()],
        "specified": lambda: [A.WeighSpecified(a=0.5, b=0.25)],
        "short": lambda: [A.WeighSpecified(a=0.75, b=-0.25)],
        "target": lambda: [A.WeighTarget("wt")],
        "invvol": lambda: [A.WeighInvVol(lookback=D(days=9))],
        "invvol_lag": lambda: [A.WeighInvVol(lookback=D(days=8), lag=D(days=1))],
        "erc": lambda: [A.WeighERC(lookback=D(days=9), covar_method="standard")],
        "meanvar": lambda: [A.WeighMeanVar(lookback=D(days=9), covar_method="standard")],
        "randomly": lambda: [A.WeighRandomly()],
        "target_drift": lambda: [A.WeighTarget("wt_drift")],
    }
    return m[name]()


WEIGHS = ["equal", "specified", "short", "target", "invvol", "invvol_lag", "erc", "meanvar", "randomly"]
RISK_WEIGHS = {"invvol", "invvol_lag", "erc", "meanvar"}


def mod(name):
    A = rt.bt().algos
    D = pd.DateOffset
    m = {
        "none": lambda: [],
        "scale": lambda: [A.ScaleWeights(0.5)],
        "limitdeltas": lambda: [A.LimitDeltas(0.25)],
        "limitweights": lambda: [A.LimitWeights(0.75)],
        "targetvol": lambda: [A.TargetVol(0.2, lookback=D(days=9))],
        "cash": lambda: [SetCash(0.25)],
        "closedead": lambda: [A.CloseDead()],
        "oob": lambda: [A.Or([A.RunOnce(), A.RunIfOutOfBounds(0.2)])],
    }
    return m[name]()


MODS = ["none", "scale", "limitdeltas", "limitweights", "targetvol", "cash", "closedead", "oob"]


class TailUpdate(object):
    """a redundant refresh at the end of a stack (the loop refreshes after the algos anyway)"""

    def __call__(self, target):
        target.root.update(target.now)
        return True


class LazyRebalance(object):
    """a user-written rebalancer that batches its trades with update=False and leaves the refresh
    to the backtest loop ("need update after to save weights, values and such")"""

    def __call__(self, target):
        if "weights" not in target.temp:
            return True
        targets = target.temp["weights"]
        base = target.value
        for cname in list(target.children):
            if cname not in targets:
                c = target.children[cname]
                if c.value != 0.0 and c.value == c.value:
                    target.close(cname, update=False)
        for k, w in targets.items():
            target.rebalance(w, k, base=base, update=False)
        return True


def rebal(name):
    A = rt.bt().algos
    if name == "lazy":
        return [LazyRebalance()]
    if name == "rebalance":
        return [A.Rebalance()]
    if name == "overtime":
        r = A.RebalanceOverTime(3)
        r.run_always = True
        return [r]
    raise KeyError(name)


REBALS = ["rebalance", "overtime", "lazy"]

BASE = {"gate": "daily", "select": "all", "weigh": "equal", "mod": "none", "rebal": "rebalance", "flow": None, "flowgate": None}


def stack(st, idx):
    """gate -> (flow) -> select -> weigh -> mod -> rebalance; risk weighers behind
    SelectHasData and a warm-up gate as their documentation asks."""
    A = rt.bt().algos
    out = []
    g = st.get("gate", "daily")
    risky = st.get("weigh") in RISK_WEIGHS or st.get("mod") == "targetvol"
    if risky and st.get("warm") != "after_gate":
        out += [A.RunAfterDays(6)]
    if st.get("flow") is not None and st.get("flowgate"):
        # flows on their own schedule: dates with a flow but no rebalance exist
        fg = gate(st["flowgate"], idx)
        fl = A.AlgoStack(*(fg + [A.CapitalFlow(float(st["flow"])), Tap("flow")]))
        out += [A.Or([fl, lambda target: True])]
        out += gate(g, idx)
    else:
        out += gate(g, idx)
        if st.get("flow") is not None:
            out += [A.CapitalFlow(float(st["flow"])), Tap("flow")]
    if risky and st.get("warm") == "after_gate":
        # warm-up counted in gate hits (keeps the stack's first algo a calendar scheduler)
        out += [A.RunAfterDays(6 if g == "daily" else 2)]
    if risky:
        out += [A.SelectAll(), A.SelectHasData(lookback=pd.DateOffset(days=9), min_count=5)]
    else:
        out += select(st.get("select", "all"))
    out += weigh(st.get("weigh", "equal"))
    out += mod(st.get("mod", "none"))
    out += rebal(st.get("rebal", "rebalance"))
    if st.get("tail_update"):
        tu = TailUpdate()
        tu.run_always = True
        out += [tu]
    return out


# ----------------------------------------------------------------------
# trees


def additional(idx, spec, data):
    """additional_data tables referenced by name from the menus."""
    n = len(idx)
    cols = list(data.columns)
    stat = pd.DataFrame({c: [((i * 7 + 3 * k) % 5) - 1.5 for i in range(n)] for k, c in enumerate(cols)}, index=idx, dtype=float)
    stat.iloc[1, 0] = np.nan
    signal = pd.DataFrame({c: [((i + k) % 3) != 0 for i in range(n)] for k, c in enumerate(cols)}, index=idx)
    # dated target weights: only every other date, c only once listed
    rows = {}
    for i in range(0, n, 2):
        w = {"a": 0.25 + 0.125 * (i % 3), "b": 0.25, "c": 0.125 if data["c"].iloc[i] > 0 else np.nan}
        rows[idx[i]] = w
    wt = pd.DataFrame(rows).T
    # a statistic that is only published every third date (e.g. weekly scores on daily data)
    stat_sparse = stat.iloc[::3]
    # targets that drift by a few millionths per date: on a large book every trade is tiny
    # relative to the position it changes
    wt_drift = pd.DataFrame({"a": [0.5 + 3e-6 * i for i in range(n)], "b": [0.4 - 3e-6 * i for i in range(n)]}, index=idx)
    ad = {"stat": stat, "signal": signal, "wt": wt, "stat_sparse": stat_sparse, "wt_drift": wt_drift}
    if spec.get("spread") is not None:
        # (spread_cols: a bid/offer table that quotes only some of the tickers - the others trade at mid)
        ad["bidoffer"] = pd.DataFrame(float(spec["spread"]), index=idx, columns=list(spec.get("spread_cols") or cols))
    return ad


def _perturb_frame(obj, cut, kind, cell=None):
    """change values dated after `cut` only; the index is never touched"""
    if isinstance(obj, dict):
        return {k: _perturb_frame(v, cut, kind, cell) for k, v in obj.items()}
    if not isinstance(obj, (pd.DataFrame, pd.Series)) or not isinstance(obj.index, pd.DatetimeIndex):
        return obj
    out = obj.copy()
    fut = [i for i, lab in enumerate(out.index) if lab > cut]
    if not fut:
        return out
    if isinstance(out, pd.Series):
        vals = out.values.astype(float).copy()
        if kind == "scale":
            for j, i in enumerate(fut):
                vals[i] = vals[i] * (1.25 + 0.0625 * (j % 3))
        elif kind == "reverse":
            vals[fut] = vals[fut][::-1]
        return pd.Series(vals, index=out.index, name=out.name)
    isbool = all(out[c].dtype == bool for c in out.columns)
    arr = out.to_numpy(dtype=object if isbool else float).copy()
    if kind == "scale":
        for j, i in enumerate(fut):
            for k in range(arr.shape[1]):
                arr[i, k] = (not arr[i, k]) if isbool else arr[i, k] * (1.25 + 0.125 * k + 0.0625 * (j % 3))
    elif kind == "reverse":
        arr[fut, :] = arr[fut[::-1], :]
    elif kind == "swap":
        if arr.shape[1] >= 2:
            arr[fut, :] = np.roll(arr[fut, :], 1, axis=1)
    elif kind == "cell":
        i, k = cell
        if i < len(fut) and k < arr.shape[1]:
            v = arr[fut[i], k]
            arr[fut[i], k] = (not v) if isbool else (v * 1.5 + 0.25 if v == v else v)
    res = pd.DataFrame(arr, index=out.index, columns=out.columns)
    return res.astype(bool) if isbool else res.astype(float)


def perturb(data, ad, p):
    cut = pd.Timestamp(p["cut"])
    kind = p["kind"]
    cell = p.get("cell")
    only = p.get("table")
    if only in (None, "data"):
        data = _perturb_frame(data, cut, kind, cell)
    ad2 = {}
    for k, v in ad.items():
        ad2[k] = _perturb_frame(v, cut, kind, cell) if only in (None, k) else v
    return data, ad2


def build(spec):
    """-> (Backtest, info)"""
    bt = rt.bt()
    A = bt.algos
    data = table(spec.get("data", "d6"), spec.get("alpha", "exact"), late="zero" if spec.get("tree") == "flat_zero" else spec.get("late", True))
    if "prices" in spec:
        for k, v in spec["prices"].items():
            data[k] = np.array(v, dtype=float)
    if spec.get("price_scale"):
        # price level (a full-sample statistic of the table moves with every future quote)
        data = data * float(spec["price_scale"])
    if spec.get("nan_rows"):
        # dates on which nothing at all is quoted (legal while the book is flat)
        for i in spec["nan_rows"]:
            data.iloc[i, :] = np.nan
    if spec.get("cols"):
        data = data[spec["cols"]]
    idx = data.index
    tree = spec.get("tree", "flat")
    st = dict(BASE)
    st.update(spec.get("stack", {}))
    if tree in ("flat", "flat_zero"):
        s = bt.Strategy("r", stack(st, idx))
    elif tree == "flat_decl":
        s = bt.Strategy("r", stack(st, idx), ["a", "b", "c", "d"])
    elif tree in ("flat_eager", "flat_eager_m"):
        mb = 10 if tree == "flat_eager_m" else 1
        s = bt.Strategy("r", stack(st, idx), [bt.Security("a", multiplier=2 if mb > 1 else 1), bt.Security("b", multiplier=mb), bt.Security("c"), bt.Security("d")])
    elif tree in ("nested", "nested_sel"):
        cst = dict(BASE)
        cst.update(spec.get("child_stack", {"gate": "weekly"}))
        # no declared children: both sub-strategies see the whole universe (shared tickers)
        s1 = bt.Strategy("s1", stack(st, idx))
        s2 = bt.Strategy("s2", stack(cst, idx))
        pw = spec.get("parent_weights", {"s1": 0.5, "s2": 0.25})
        if tree == "nested":
            ps = [A.RunDaily(), A.WeighSpecified(**pw), A.Rebalance()]
        else:
            ps = [A.RunWeekly(), A.SelectAll(), A.WeighEqually(), A.Rebalance()]
        s = bt.Strategy("r", ps, [s1, s2])
    elif tree == "nested_sec":
        # a sub-strategy next to directly held securities, shared tickers
        s1 = bt.Strategy("s1", stack(st, idx), ["a", "b"])
        ps = [A.RunWeekly(), A.WeighSpecified(s1=0.5, b=0.25, d=0.125), A.Rebalance()]
        s = bt.Strategy("r", ps, [s1, "b", "d"])
    elif tree == "deep":
        s11 = bt.Strategy("s11", stack(st, idx), ["a", "b"])
        s1 = bt.Strategy("s1", [A.RunWeekly(), A.WeighSpecified(s11=0.75, d=0.25), A.Rebalance()], [s11, "d"])
        s = bt.Strategy("r", [A.RunMonthly(), A.WeighSpecified(s1=0.75), A.Rebalance()], [s1])
    elif tree == "deep_dup":
        # two branches with identically named sub-strategies that share a ticker
        m1 = bt.Strategy("mom", stack(st, idx), ["a", "b"])
        m2 = bt.Strategy("mom", [A.RunWeekly(), A.SelectThese(["a", "d"]), A.WeighSpecified(a=0.25, d=0.5), A.Rebalance()], ["a", "d"])
        eq = bt.Strategy("eq", [A.RunWeekly(), A.WeighSpecified(mom=0.75), A.Rebalance()], [m1])
        cr = bt.Strategy("cr", [A.RunWeekly(), A.WeighSpecified(mom=0.5), A.Rebalance()], [m2])
        s = bt.Strategy("r", [A.RunMonthly(), A.WeighSpecified(eq=0.5, cr=0.25), A.Rebalance()], [eq, cr])
    elif tree == "fi_hedge":
        kids = [bt.FixedIncomeSecurity("a"), bt.CouponPayingSecurity("b"), bt.HedgeSecurity("d", multiplier=spec.get("mult_d", 1), lazy_add=bool(spec.get("lazy_hedge")))]
        if spec.get("idle_child"):
            kids.append(bt.FixedIncomeSecurity("c"))  # declared, never targeted; not yet issued: no risk number at first
        w = spec.get("fi_weights", {"a": 0.5, "b": 0.5})
        algos = gate(st.get("gate", "daily"), idx) + [A.SetNotional("notional"), A.WeighSpecified(**w), A.Rebalance(), A.UpdateRisk("M1"), A.SelectThese(["d"]), A.HedgeRisks(["M1"]), A.UpdateRisk("M1")]
        s = bt.FixedIncomeStrategy("r", algos, children=kids)
    else:
        raise KeyError(tree)
    ad = additional(idx, spec, data)
    if tree == "fi_hedge":
        n = len(idx)
        ad["coupons"] = pd.DataFrame({"b": [0.125 * ((i * 3) % 5) for i in range(n)]}, index=idx)
        ad["cost_long"] = pd.DataFrame({"b": [0.0625 * (i % 3) for i in range(n)]}, index=idx)
        ad["cost_short"] = pd.DataFrame({"b": [0.03125 * ((i + 1) % 4) for i in range(n)]}, index=idx)
        if spec.get("plain_cost_index"):
            # the same dates, but an index built from a plain list (no name, no freq): equal, not identical
            for k in ("cost_long", "cost_short"):
                ad[k] = pd.DataFrame(ad[k].values, index=pd.DatetimeIndex(list(idx)), columns=ad[k].columns)
        ad["notional"] = pd.Series([64.0 + 16.0 * (i % 4) for i in range(n)], index=idx)
        ad["unit_risk"] = {"M1": pd.DataFrame({"a": [1.0 + 0.25 * (i % 3) for i in range(n)], "b": [0.5 + 0.125 * (i % 4) for i in range(n)], "d": [1.0 + 0.5 * ((i * 2) % 3) for i in range(n)]}, index=idx)}
        if spec.get("idle_child"):
            ad["unit_risk"]["M1"]["c"] = [float("nan") if i < n // 2 else 2.0 for i in range(n)]
    if spec.get("perturb"):
        data, ad = perturb(data, ad, spec["perturb"])
    fee = spec.get("fee")
    spy = T.FeeSpy(fee) if fee not in (None, "none") else None
    b = bt.Backtest(
        s,
        data,
        initial_capital=float(spec.get("capital", 1000000.0)),
        commissions=spy,
        integer_positions=bool(spec.get("integer", True)),
        progress_bar=False,
        additional_data=ad,
        **({"name": spec["bt_name"]} if spec.get("bt_name") else {})
    )
    return b, {"data": data, "additional": ad, "spy": spy, "template": s}


def run(spec):
    rt.seed_rng(int(spec.get("rng", 0)))
    b, info = build(spec)
    b.run()
    return b, info


# ----------------------------------------------------------------------
# family enumeration


def stacks(tier):
    """quick: baseline with every slot varied one at a time + all pairs selector x weigher;
    thorough: full product of the menus."""
    out = []
    seen = set()

    def add(**kw):
        st = dict(BASE)
        st.update(kw)
        if st["weigh"] in RISK_WEIGHS or st["mod"] == "targetvol":
            st["select"] = "these"  # forced by stack()
        key = tuple(sorted((k, str(v)) for k, v in st.items()))
        if key not in seen:
            seen.add(key)
            out.append(st)

    if tier == "quick":
        add()
        for g in GATES:
            add(gate=g)
        for s in SELECTS:
            add(select=s)
        for w in WEIGHS:
            add(weigh=w)
        for m in MODS:
            add(mod=m)
        for r in REBALS:
            add(rebal=r)
        for fl in (1000.0, -1000.0):
            add(flow=fl, gate="weekly")
            add(flow=fl * 100, gate="monthly", flowgate="weekly")
            add(flow=fl * 100, gate="once", flowgate="daily", weigh="specified")
        for s in SELECTS:
            for w in WEIGHS:
                add(select=s, weigh=w)
        add(gate="monthly", rebal="overtime")
        add(gate="weekly", rebal="lazy", weigh="short")
        add(gate="daily", rebal="lazy", weigh="specified")
        add(gate="pte", select="these", weigh="specified")
        add(gate="daily", weigh="target_drift")
        add(gate="weekly", mod="cash", weigh="short")
        add(gate="weekly", mod="limitdeltas", weigh="target")
    else:
        for g in GATES:
            for s in SELECTS:
                for w in WEIGHS:
                    for m in MODS:
                        add(gate=g, select=s, weigh=w, mod=m)
        for g in ("daily", "weekly", "monthly"):
            for w in WEIGHS:
                for m in MODS:
                    add(gate=g, weigh=w, mod=m, rebal="overtime")
                    add(gate=g, weigh=w, mod=m, flow=1000.0)
                    add(gate=g, weigh=w, mod=m, flow=-1000.0)
                    add(gate=g, weigh=w, mod=m, flow=50000.0, flowgate="weekly")
                    add(gate=g, weigh=w, mod=m, flow=-50000.0, flowgate="daily")
    return out


COSTS = [
    {"fee": None, "spread": None},
    {"fee": "propdec", "spread": None},
    {"fee": "maxflat", "spread": 0.25},
    {"fee": None, "spread": 0.5},
    {"fee": "pershare", "spread": None},
]


def configs(tier, seed):
    """(tree, data, alpha, cost, integer, capital, full_product)"""
    out = []
    if tier == "quick":
        k = seed % len(COSTS)
        out.append(("flat", "d25", "exact", COSTS[k], True, 1000000.0, True))
        out.append(("flat_eager", "d12", "decimal", COSTS[(k + 1) % len(COSTS)], False, 1000000.0, False))
        out.append(("flat_eager_m", "d12", "exact", COSTS[1 + (k % 2)], k % 2 == 0, 1000000.0, False))
        out.append(("nested", "d25", "exact", COSTS[(k + 2) % len(COSTS)], True, 1000000.0, False))
        out.append(("deep", "d12", "exact", COSTS[1 + (k % 2) * 3], False, 1000000.0, False))
        out.append(("flat_zero", "d12", "exact", COSTS[k], k % 2 == 0, 1000000.0, False))
    else:
        for ci, cost in enumerate(COSTS):
            # the full product of the menus
            out.append(("flat", "d25", "exact" if ci % 2 == 0 else "decimal", cost, ci % 2 == 0, 1000000.0, True))
        for tree in ("flat", "flat_eager", "flat_decl", "flat_eager_m"):
            for data in ("d25", "d6", "d12"):
                for alpha in ("exact", "decimal"):
                    for ci, cost in enumerate(COSTS):
                        for integer in (True, False):
                            if tree != "flat" and (ci + (alpha == "decimal") + integer) % 3:
                                continue
                            out.append((tree, data, alpha, cost, integer, 1000000.0 if ci % 2 else 12345.67, False))
        for tree in ("nested", "nested_sec", "deep", "nested_sel"):
            for ci, cost in enumerate(COSTS):
                for integer in (True, False):
                    out.append((tree, "d25", "exact" if (ci + integer) % 2 == 0 else "decimal", cost, integer, 1000000.0, False))
    return out


def family(tier, seed, nested_full=False):
    specs = []
    sts = stacks(tier)
    one_at_a_time = stacks("quick")
    singles = [s for s in one_at_a_time if sum(1 for k in BASE if s.get(k) != BASE[k]) <= 1]
    for tree, data, alpha, cost, integer, capital, full in configs(tier, seed):
        if full:
            use = sts
        elif tier == "quick":
            use = singles  # one-at-a-time only (no pairs) off the flat tree
        else:
            use = one_at_a_time
        for st in use:
            if tree in ("nested", "nested_sec", "deep", "nested_sel") and st["gate"] not in CAL_GATES + ["once", "ondate", "everyn", "or"]:
                # sub-strategy stacks that trade unconditionally act on the synthetic row (F-C10p, C09 note)
                continue
            if tree in ("nested", "nested_sec", "deep", "nested_sel") and st.get("flow") is not None:
                continue
            if st["mod"] == "targetvol" and st["weigh"] == "target":
                # the dated target weights name a late-listed ticker whatever was selected: TargetVol
                # would estimate a covariance on a window without data
                continue
            if st["mod"] == "limitweights" and st["weigh"] in ("specified", "short", "target"):
                # ffn.limit_weights is defined for weights that sum to one only
                continue
            if tree in ("nested_sec", "deep") and (st["select"] in ("where", "statn", "statn_lag", "statn_sparse") or st["weigh"] == "target"):
                # the shared tables name tickers outside these sub-strategies' declared universe
                continue
            if st.get("flow") is not None and capital != 1000000.0:
                # flows are sized for a 1e6 book: keep them in proportion (a withdrawal larger than
                # the fund is not a well-formed schedule)
                st = dict(st, flow=float(st["flow"]) * capital / 1000000.0)
            sp = {"tree": tree, "stack": st, "data": data, "alpha": alpha, "integer": integer, "capital": capital, "rng": seed % 4}
            sp.update(cost)
            specs.append(sp)
    # dates without any quote before the strategy starts trading, with capital flowing in on them
    for cost in (COSTS[0], COSTS[1]):
        sp = {"tree": "flat", "stack": dict(BASE, gate="afterdate", flow=1000.0, flowgate="daily"), "data": "d12", "alpha": "exact", "late": False, "nan_rows": [1, 2], "integer": True, "capital": 1000000.0, "rng": 0}
        sp.update(cost)
        specs.append(sp)
    # a very large book on constant prices whose targets drift by millionths: every trade is tiny
    # relative to the position it changes
    for cost in (COSTS[4], COSTS[1], COSTS[3]):
        for tree in ("flat_eager", "nested"):
            sp = {"tree": tree, "stack": dict(BASE, weigh="target_drift"), "data": "d12", "alpha": "const", "integer": False, "capital": 1e8, "rng": 0}
            sp.update(cost)
            specs.append(sp)
    return specs


# ----------------------------------------------------------------------
# observation of a finished run


node_path = rt.node_path


def run_histories(b):
    """{full_name: {series: (labels, values)}} of every node of a finished backtest"""
    bt = rt.bt()
    out = {}

    path = node_path

    def walk(n):
        # the driver's own walk through .children (not the node's members list)
        yield n
        for c in getattr(n, "children", {}).values():
            for x in walk(c):
                yield x

    for n in walk(b.strategy):
        d = {}
        if isinstance(n, bt.core.StrategyBase):
            names = ["prices", "values", "notional_values", "cash", "fees", "flows"]
        else:
            names = ["prices", "values", "notional_values", "positions", "outlays"]
            if hasattr(n, "coupons"):
                names += ["coupons", "holding_costs"]
        if n._bidoffer_set:
            names.append("bidoffers_paid")
        for s in names:
            ser = getattr(n, s)
            d[s] = ([str(x) for x in ser.index], [float(x) for x in ser.values])
        d["__mult__"] = float(getattr(n, "multiplier", 1.0))
        d["__kind__"] = "S" if isinstance(n, bt.core.StrategyBase) else "X"
        d["__parent__"] = path(n.parent) if n.parent is not n else None
        d["__fi__"] = bool(n.fixed_income)
        out[path(n)] = d
    return out
