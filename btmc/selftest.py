"""setup_cmd: nothing to install; verifies offline that both builds can be made
from /repo's working tree and imported from the scratch directory."""
import os
import subprocess
import sys

from . import build


def main():
    ok = True
    for kind in ("py", "cy"):
        d = build.make(kind)
        code = "import sys; sys.path.insert(0, %r); import bt; print(bt.core.__file__)" % d
        r = subprocess.run([build.PY, "-c", code], capture_output=True, text=True, env=dict(os.environ, PYTHONHASHSEED="0", MPLBACKEND="Agg"))
        good = r.returncode == 0 and r.stdout.strip().startswith(d)
        print("build %s: %s %s" % (kind, "ok" if good else "FAILED", r.stdout.strip() or r.stderr[-500:]))
        ok = ok and good
    build._cleanup()
    sys.exit(0 if ok else 1)


if __name__ == "__main__":
    main()
