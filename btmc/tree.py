"""TreeDriver (DESIGN 3.3): builds a node tree from a JSON-able spec, applies
operations from a small alphabet to the REAL bt objects, observes them through
the public API and computes the canonical key of the raw state.

Everything here runs inside a worker (rt.bt() is the build under test).
"""
import hashlib
import math

import numpy as np
import pandas as pd

from . import rt

DATES = ["2020-01-01", "2020-01-02", "2020-01-03", "2020-01-06", "2020-01-07", "2020-01-08"]

TABLES = {
    # dyadic rationals: every + - * the code performs is exact
    "exact": {"a": [4.0, 2.0, 8.0, 4.0, 2.0, 4.0], "b": [1.0, 2.0, 0.5, 1.0, 4.0, 2.0], "c": [2.0, 2.0, 4.0, 1.0, 2.0, 8.0]},
    # float dust
    "decimal": {"a": [3.3, 0.7, 101.37, 3.3, 7.7, 2.9], "b": [0.7, 3.3, 0.9, 1.1, 2.3, 0.7], "c": [1.9, 2.1, 4.3, 1.3, 0.3, 5.1]},
}
FI_TABLES = {
    "exact": {
        "f": [1.0, 1.25, 0.75, 1.0, 1.5, 1.0],
        "c": [1.0, 1.0, 1.5, 0.5, 1.0, 2.0],
        "h": [2.0, 4.0, 2.0, 1.0, 2.0, 4.0],
        "e": [4.0, 2.0, 8.0, 4.0, 2.0, 4.0],
        "ch": [1.0, 0.5, 1.0, 2.0, 1.0, 0.5],
    },
    "decimal": {
        "f": [1.01, 0.993, 1.107, 0.95, 1.0, 1.03],
        "c": [0.97, 1.013, 1.2, 0.71, 1.0, 1.1],
        "h": [101.3, 99.7, 100.1, 98.9, 100.0, 97.3],
        "e": [3.3, 0.7, 101.37, 3.3, 7.7, 2.9],
        "ch": [1.03, 0.97, 1.0, 1.21, 0.9, 1.0],
    },
}
COUPONS = {
    "exact": {"c": [0.5, 0.0, 0.25, 1.0, 0.125, 0.5], "ch": [0.25, 0.25, 0.0, 0.5, 1.0, 0.0]},
    "decimal": {"c": [0.013, 0.0, 0.007, 0.11, 0.0, 0.02], "ch": [0.003, 0.01, 0.0, 0.07, 0.01, 0.0]},
}
COST_LONG = {
    "exact": {"c": [0.125, 0.0, 0.125, 0.25, 0.0, 0.125], "ch": [0.0, 0.125, 0.0, 0.25, 0.125, 0.0]},
    "decimal": {"c": [0.001, 0.0, 0.002, 0.003, 0.0, 0.001], "ch": [0.0, 0.002, 0.0, 0.001, 0.0, 0.001]},
}
COST_SHORT = {
    "exact": {"c": [0.25, 0.25, 0.0, 0.5, 0.25, 0.0], "ch": [0.5, 0.0, 0.25, 0.0, 0.0, 0.25]},
    "decimal": {"c": [0.004, 0.003, 0.0, 0.005, 0.001, 0.0], "ch": [0.002, 0.0, 0.006, 0.0, 0.001, 0.0]},
}


def fee_fn(name):
    if name in (None, "none"):
        return None
    if name == "prop":  # size-proportional
        return lambda q, p: abs(q) * p * 0.125
    if name == "pershare":
        return lambda q, p: abs(q) * 0.25
    if name == "flat":
        return lambda q, p: 1.0
    if name == "maxflat":
        return lambda q, p: max(1.0, abs(q) * 0.125)
    if name == "selllevy":  # direction-dependent: a levy on sales only (+ a small symmetric part)
        return lambda q, p: (0.0625 * abs(q) * p if q < 0 else 0.0) + 0.03125 * abs(q)
    if name == "rebate":  # a maker rebate on sales: the commission of a sale is negative
        return lambda q, p: (-0.03125 * abs(q)) if q < 0 else 0.0625 * abs(q)
    if name == "propdec":
        return lambda q, p: abs(q) * p * 0.001
    if name == "mixdec":
        return lambda q, p: 0.01 * abs(q) * p + 0.5
    raise KeyError(name)


class FeeSpy(object):
    """The commission function handed to bt; logs every evaluation."""

    def __init__(self, name):
        self.name = name
        self.fn = fee_fn(name)
        self.calls = []

    def __call__(self, q, p):
        r = self.fn(q, p)
        self.calls.append((float(q), float(p), float(r)))
        return r

    def __deepcopy__(self, memo):
        # paper copies log separately
        c = FeeSpy(self.name)
        return c


def frame(cols, n, names=None):
    idx = pd.DatetimeIndex(DATES[:n])
    names = names or sorted(cols)
    return pd.DataFrame({k: np.array(cols[k][:n], dtype=float) for k in names}, index=idx)


class Tree(object):
    """A live tree plus the driver's own ledger of what it did."""

    def __init__(self, spec):
        bt = rt.bt()
        self.spec = spec
        shape = spec["shape"]
        alpha = spec.get("alpha", "exact")
        n = spec.get("ndates", 4)
        m = spec.get("mult", {})
        if shape in ("T3", "T1lazy"):
            m = {}  # securities named by strings are created by the library: multiplier 1 whatever the spec says
        self.mult = dict(m)  # the multipliers the driver asks for (the oracle's, see snapshot)
        self.fi = shape in ("F1", "F2")

        def S(name):
            return bt.Security(name, multiplier=m.get(name, 1))

        kw = {}
        if shape == "T1":
            root = bt.Strategy("r", [], [S("a"), S("b")])
            cols = ["a", "b"]
        elif shape == "T1c":
            root = bt.Strategy("r", [], [S("a"), S("b"), S("c")])
            cols = ["a", "b", "c"]
        elif shape == "T1lazy":
            root = bt.Strategy("r", [], ["a", "b"])
            cols = ["a", "b"]
        elif shape == "T2" and spec.get("build") == "top_down":
            # the same tree assembled from the top: sub-strategies attached with parent=, and ONE lazily
            # added security object for 'a' handed to both of them
            shared = bt.Security("a", multiplier=m.get("a", 1), lazy_add=True)
            root = bt.Strategy("r", [], [S("b")])
            bt.Strategy("s1", [], [shared, S("b")], parent=root)
            bt.Strategy("s2", [], [shared], parent=root)
            cols = ["a", "b"]
        elif shape == "T2":
            s1 = bt.Strategy("s1", [], [S("a"), S("b")])
            s2 = bt.Strategy("s2", [], [S("a")])
            root = bt.Strategy("r", [], [s1, s2, S("b")])
            cols = ["a", "b"]
        elif shape == "T3":
            s11 = bt.Strategy("s11", [], ["a"])
            s1 = bt.Strategy("s1", [], [s11, "b"])
            root = bt.Strategy("r", [], [s1])
            cols = ["a", "b"]
        elif shape == "MC":
            # a market-value strategy holding a coupon-paying security that is weighted by market value
            root = bt.Strategy("r", [], [bt.CouponPayingSecurity("c", multiplier=m.get("c", 1), fixed_income=False), S("e")])
            cols = ["c", "e"]
            self.fi = True  # (uses the coupon / cost tables)
        elif shape == "F1":
            ch = [
                bt.FixedIncomeSecurity("f", multiplier=m.get("f", 1)),
                bt.CouponPayingSecurity("c", multiplier=m.get("c", 1)),
                bt.HedgeSecurity("h", multiplier=m.get("h", 1)),
                bt.Security("e", multiplier=m.get("e", 1)),
                bt.CouponPayingHedgeSecurity("ch", multiplier=m.get("ch", 1)),
            ]
            root = bt.FixedIncomeStrategy("r", [], children=ch)
            cols = ["f", "c", "h", "e", "ch"]
        elif shape == "F2":
            sf = bt.FixedIncomeStrategy("sf", [], children=[bt.FixedIncomeSecurity("f", multiplier=m.get("f", 1)), bt.CouponPayingSecurity("c", multiplier=m.get("c", 1))])
            root = bt.FixedIncomeStrategy("r", [], children=[sf, bt.Security("e", multiplier=m.get("e", 1)), bt.HedgeSecurity("h", multiplier=m.get("h", 1))])
            cols = ["f", "c", "e", "h"]
        else:
            raise KeyError(shape)
        if self.fi:
            self.data = frame(FI_TABLES[alpha], n, cols)
            cp = [c for c in cols if c in ("c", "ch")]
            kw["coupons"] = frame(COUPONS[alpha], n, cp)
            carry = spec.get("carry", True)
            if carry in (True, "long_only"):
                kw["cost_long"] = frame(COST_LONG[alpha], n, cp)
            if carry in (True, "short_only"):
                kw["cost_short"] = frame(COST_SHORT[alpha], n, cp)
            if carry == "split":
                # each table lists only some of the securities: long costs for one, short costs for the other
                kw["cost_long"] = frame(COST_LONG[alpha], n, [c for c in cp if c != "c"] or cp[:0])
                kw["cost_short"] = frame(COST_SHORT[alpha], n, [c for c in cp if c == "c"])
        else:
            self.data = frame(TABLES[alpha], n, cols)
        if "prices" in spec:  # explicit override {ticker: [..]}
            for k, v in spec["prices"].items():
                self.data[k] = np.array(v[:n], dtype=float)
        self.spread = spec.get("spread")
        if isinstance(self.spread, (list, tuple)):
            # a spread that changes from date to date (same for every ticker)
            col = np.array([float(x) for x in self.spread[: len(self.data.index)]])
            kw["bidoffer"] = pd.DataFrame({c: col for c in self.data.columns}, index=self.data.index)
        elif self.spread is not None:
            kw["bidoffer"] = pd.DataFrame(float(self.spread), index=self.data.index, columns=self.data.columns)
        if spec.get("unit_risk"):
            kw["unit_risk"] = {"M1": pd.DataFrame({c: [1.0 + 0.25 * ((i + k) % 3) for i in range(len(self.data.index))] for k, c in enumerate(self.data.columns)}, index=self.data.index)}
        self.kw = kw
        self.spy = None
        root.use_integer_positions(bool(spec.get("integer", True)))
        if spec.get("fee") not in (None, "none"):
            self.spy = FeeSpy(spec["fee"])
            root.set_commissions(self.spy)
        self.root = root
        self.dates = list(self.data.index)
        self.i = 0
        # the driver's own ledger: (date index, path, amount, is_flow)
        self.adjust_log = []
        if spec.get("seed_before_setup"):
            # money paid into the strategy before it is given its data: a flow of the first date
            root.adjust(float(spec["seed_before_setup"]))
            self.adjust_log.append((0, (), float(spec["seed_before_setup"]), True))
        root.setup(self.data, **kw)
        # a run that starts late: the tree's first update is not on the first row of its data
        self.i = int(spec.get("start_row", 0))
        cap = float(spec.get("capital", 64.0))
        if cap:
            root.adjust(cap)
            self.adjust_log.append((self.i, (), cap, True))
        root.update(self.dates[self.i])
        # optional: fund sub-strategies on the first date so that trades inside them are
        # not refused by the zero-base guard (an unfunded variant is explored as well)
        for path, child, amt in spec.get("prefund", []):
            self.node(path).allocate(float(amt), child=child)
        if spec.get("prefund"):
            root.update(self.dates[self.i])
        # optional: start the exploration from a non-initial state
        for op in spec.get("preops", []):
            self.apply(op)

    # ------------------------------------------------------------------
    def spread_now(self):
        if isinstance(self.spread, (list, tuple)):
            return float(self.spread[self.i])
        return self.spread

    def node(self, path):
        n = self.root
        for p in path:
            n = n.children[p]
        return n

    def apply(self, op, upd=True):
        """Apply one op.  Returns False if the op is not enabled (no state change)."""
        k = op[0]
        r = self.root
        if k == "next" or k == "next_raw":
            if self.i >= len(self.dates) - 1:
                return False
            if k == "next":
                r.update(r.now)  # close the books on the date being left
            self.i += 1
            r.update(self.dates[self.i])
        elif k == "update":
            r.update(r.now)
        elif k == "adjust":  # ["adjust", path, amount, flow]
            flow = bool(op[3]) if len(op) > 3 else True
            self.node(op[1]).adjust(float(op[2]), update=upd, flow=flow)
            self.adjust_log.append((self.i, tuple(op[1]), float(op[2]), flow))
        elif k == "alloc":  # ["alloc", path, child, amount]
            self.node(op[1]).allocate(float(op[3]), child=op[2])
        elif k == "allocself":  # ["allocself", path, amount]  push down by weights
            self.node(op[1]).allocate(float(op[2]), update=upd)
        elif k == "reb":  # ["reb", path, child, weight]
            self.node(op[1]).rebalance(float(op[3]), op[2], update=upd)
        elif k == "rebbase":  # ["rebbase", path, child, weight, base]
            self.node(op[1]).rebalance(float(op[3]), op[2], base=float(op[4]), update=upd)
        elif k == "close":
            n = self.node(op[1])
            if op[2] not in n.children:
                return False
            n.close(op[2], update=upd)
        elif k == "flatten":
            self.node(op[1]).flatten()
        elif k == "transact":  # ["transact", path_to_strategy, child, q]
            self.node(op[1]).transact(float(op[3]), child=op[2], update=upd)
        elif k == "sectransact":  # ["sectransact", path_to_security, q, price|None]
            n = self.node(op[1])
            price = op[3] if len(op) > 3 else None
            n.transact(float(op[2]), update=upd, price=price)
        elif k == "stransact":  # ["stransact", path, q]  strategy-level push down (FI)
            self.node(op[1]).transact(float(op[2]), update=upd)
        elif k == "seq":  # ["seq", [ops...]]  ordinary (update=True) ops back to back, nothing read in between
            for o in op[1]:
                if not self.apply(o):
                    return False
        elif k == "batch":  # ["batch", [ops...]]  update=False ops, then one root update
            for o in op[1]:
                if not self.apply(o, upd=False):
                    return False
            r.update(r.now)
        elif k == "algos":  # ["algos", path, {"weights":..,"cash":..,"notional_value":..}, "Rebalance"]
            bt = rt.bt()
            n = self.node(op[1])
            n.temp = dict(op[2])
            if "weights" in n.temp:
                n.temp["weights"] = dict(n.temp["weights"])
            args = list(op[4]) if len(op) > 4 else []
            getattr(bt.algos, op[3])(*args)(n)
            if op[3] == "CapitalFlow":
                # the driver's own tally: a flow into that node on the current date
                self.adjust_log.append((self.i, tuple(op[1]), float(args[0]), True))
        else:
            raise KeyError(k)
        return True

    def replay(self, hist):
        for op in hist:
            if not self.apply(op):
                return False
        return True


# ----------------------------------------------------------------------
# observation through the public API


def f(x):
    try:
        return float(x)
    except Exception:
        return x


def snapshot(tree):
    """Reads every node through its public properties (this refreshes a stale tree)."""
    bt = rt.bt()
    root = tree.root
    out = {}
    order = []

    def walk(n, parent):
        name = n.full_name
        order.append(name)
        d = {"parent": parent, "name": n.name}
        if isinstance(n, bt.core.StrategyBase):
            d["kind"] = "S"
            d["fi"] = bool(n.fixed_income)
            d["value"] = f(n.value)
            d["capital"] = f(n.capital)
            d["weight"] = f(n.weight)
            d["price"] = f(n.price)
            d["notl"] = f(n.notional_value)
            d["bankrupt"] = bool(n.bankrupt)
            d["now"] = str(n.now)
            d["children"] = [c.full_name for c in n.children.values()]
            if n._bidoffer_set:
                d["bidoffer_paid"] = f(n.bidoffer_paid)
            out[name] = d
            for c in list(n.children.values()):
                walk(c, name)
        else:
            d["kind"] = "X"
            d["cls"] = type(n).__name__
            # the multiplier the DRIVER asked for (not the node's own attribute: a constructor
            # that loses the argument must not make the oracle agree with it)
            d["mult"] = float(tree.mult.get(n.name, 1))
            d["mult_attr"] = f(n.multiplier)
            # value/weight first: reading `price` re-marks the security on its own and
            # would mask a security that the tree update skipped
            d["value"] = f(n.value)
            d["weight"] = f(n.weight)
            d["notl"] = f(n.notional_value)
            d["position"] = f(n.position)
            d["price"] = f(n.price)
            d["fi"] = bool(n.fixed_income)
            if n._bidoffer_set:
                d["bidoffer"] = f(n.bidoffer)
                d["bidoffer_paid"] = f(n.bidoffer_paid)
            if hasattr(n, "coupon"):
                d["coupon"] = f(n.coupon)
                d["holding_cost"] = f(n.holding_cost)
            out[name] = d

    walk(root, None)
    out["__order__"] = order
    return out


STRAT_SERIES = ("prices", "values", "notional_values", "cash", "fees", "flows")
SEC_SERIES = ("prices", "values", "notional_values", "positions", "outlays")


def histories(tree):
    """All recorded series of all nodes, as {full_name: {series: (labels, values)}}."""
    bt = rt.bt()
    out = {}
    for n in tree.root.members:
        d = {}
        if isinstance(n, bt.core.StrategyBase):
            names = list(STRAT_SERIES)
            if n._bidoffer_set:
                names.append("bidoffers_paid")
        else:
            names = list(SEC_SERIES)
            if n._bidoffer_set:
                names.append("bidoffers_paid")
            if hasattr(n, "coupons"):
                names += ["coupons", "holding_costs"]
        for s in names:
            ser = getattr(n, s)
            d[s] = ([str(x) for x in ser.index], [float(x) for x in ser.values])
        if hasattr(n, "risks"):
            # risk history kept by UpdateRisk (a plain frame over all dates: the rows up to now)
            fr = n.risks.loc[: tree.root.now]
            for m in fr.columns:
                d["risk:%s" % m] = ([str(x) for x in fr.index], [float(x) for x in fr[m].values])
        out[n.full_name] = d
    return out


def row(hist, name, series, label):
    labels, vals = hist[name][series]
    try:
        return vals[labels.index(label)]
    except ValueError:
        return None


# ----------------------------------------------------------------------
# canonical key of the raw state (no reads, nothing dropped that can
# influence the future; DESIGN 3.4)

_SKIP = {"_original_data", "_setup_kwargs", "_bidoffers", "_coupons", "_cost_long", "_cost_short"}


def _canon(obj, memo, out):
    bt = rt.bt()
    if obj is None or isinstance(obj, (bool, str, np.bool_)):
        out.append(repr(bool(obj)) if isinstance(obj, np.bool_) else repr(obj))
        return
    if isinstance(obj, (int, float, np.floating, np.integer)):
        # 2, 2.0 and np.float64(2.0) are the same state (py and cy builds differ only in this)
        x = float(obj)
        out.append("nan" if x != x else repr(x))
        return
    oid = id(obj)
    if oid in memo:
        out.append("@%d" % memo[oid])
        return
    if isinstance(obj, (pd.DataFrame, pd.Series)):
        memo[oid] = len(memo)
        try:
            arr = np.ascontiguousarray(obj.to_numpy(dtype=float, na_value=np.nan))
            h = hashlib.sha1(arr.tobytes()).hexdigest()[:16]
        except Exception:
            h = hashlib.sha1(repr(obj.values.tolist()).encode()).hexdigest()[:16]
        cols = list(obj.columns) if isinstance(obj, pd.DataFrame) else [obj.name]
        out.append("pd<%s|%s|%d>" % (h, ",".join(map(str, cols)), len(obj)))
        return
    if isinstance(obj, pd.Index):
        out.append("idx<%d>" % len(obj))
        return
    if isinstance(obj, (pd.Timestamp, pd.DateOffset)):
        out.append(str(obj))
        return
    if isinstance(obj, np.ndarray):
        out.append("np<%s>" % hashlib.sha1(np.ascontiguousarray(obj).tobytes()).hexdigest()[:16])
        return
    if isinstance(obj, dict):
        memo[oid] = len(memo)
        out.append("{")
        for k in obj:  # insertion order is part of the state (children order)
            out.append(repr(k) if not isinstance(k, (pd.Timestamp,)) else str(k))
            out.append(":")
            _canon(obj[k], memo, out)
            out.append(",")
        out.append("}")
        return
    if isinstance(obj, (list, tuple)):
        memo[oid] = len(memo)
        out.append("[")
        for v in obj:
            _canon(v, memo, out)
            out.append(",")
        out.append("]")
        return
    if isinstance(obj, (set, frozenset)):
        out.append("set" + repr(sorted(map(str, obj))))
        return
    if isinstance(obj, FeeSpy):
        out.append("fee:" + str(obj.name))
        return
    if hasattr(obj, "__dict__") and not isinstance(obj, type) and not callable(obj) or isinstance(obj, bt.core.Algo):
        memo[oid] = len(memo)
        out.append("<%s " % type(obj).__name__)
        d = vars(obj)
        for k in sorted(d):
            if k in _SKIP:
                continue
            if k == "_prices" and isinstance(obj, bt.core.SecurityBase):
                continue  # input column
            if k in ("_universe", "_funiverse") and not getattr(obj, "_has_strat_children", False):
                continue  # constant input slice
            if k == "_funiverse":
                continue  # cache of a slice of _universe; _last_chk is kept
            out.append(k + "=")
            _canon(d[k], memo, out)
            out.append(";")
        out.append(">")
        return
    if callable(obj):
        out.append("fn")
        return
    out.append("?" + type(obj).__name__)


def canon_key(tree_or_obj):
    obj = tree_or_obj.root if isinstance(tree_or_obj, Tree) else tree_or_obj
    out = []
    _canon(obj, {}, out)
    return hashlib.sha1("".join(out).encode()).hexdigest()


# ----------------------------------------------------------------------
# numeric comparison policy (DESIGN 1.5)


def gross(tree):
    """Gross capital the driver put into the tree (scale for tolerances)."""
    return sum(abs(a) for (_, _, a, _) in tree.adjust_log) or 1.0


def close(a, b, scale=1.0, rel=1e-9):
    if a is None or b is None:
        return a is b
    if isinstance(a, float) and isinstance(b, float):
        if a != a or b != b:
            return (a != a) and (b != b)
        if math.isinf(a) or math.isinf(b):
            return a == b
    return abs(a - b) <= rel * max(1.0, abs(a), abs(b), scale)
