import sys, itertools, math, collections, time, hashlib, pickle, os
BUILD=os.environ.get('BUILD','/tmp/probe')
sys.path.insert(0,BUILD)
import numpy as np, pandas as pd
import bt
from bt.core import StrategyBase, Security, Strategy, Node
print(bt.core.__file__)
exec(open('/tmp/probe/p/c01.py').read().split("t0=time.time()")[0].split("import bt\n",1)[1].replace("from bt.core import StrategyBase, Security, Strategy\n",""))

def canon(obj, memo):
    # structural hash of the whole tree via instance dicts
    if id(obj) in memo: return ('ref', memo[id(obj)])
    if isinstance(obj, Node):
        memo[id(obj)] = len(memo)
        d = vars(obj)
        items=[]
        for k in sorted(d):
            if k in ('_original_data','_setup_kwargs','_universe','_funiverse','_prices') and isinstance(d[k], (pd.DataFrame,pd.Series)) and k!='data':
                continue
            items.append((k, canon(d[k], memo)))
        return (type(obj).__name__, tuple(items))
    if isinstance(obj, (pd.DataFrame, pd.Series)):
        return ('pd', hashlib.md5(np.ascontiguousarray(obj.to_numpy(dtype=float, na_value=np.nan) if obj.size else np.zeros(0)).tobytes()).hexdigest())
    if isinstance(obj, dict):
        return tuple((k, canon(v, memo)) for k,v in obj.items())
    if isinstance(obj, (list,tuple)):
        return tuple(canon(v, memo) for v in obj)
    if isinstance(obj, float) and obj!=obj: return 'nan'
    if isinstance(obj, (int,float,str,bool,type(None),np.floating,np.integer,np.bool_)): return obj if not isinstance(obj,(np.floating,)) else float(obj)
    if isinstance(obj, pd.Timestamp): return str(obj)
    if callable(obj): return 'fn'
    return repr(type(obj))

for shape in ('flat','nested'):
    ops=ops_for(shape)
    seen={}; frontier=[()]
    root=build(shape,True); seen[hash(canon(root,{}))]=()
    t0=time.time(); trans=0
    for depth in range(1,5):
        nxt=[]
        for hist in frontier:
            for op in ops:
                root=build(shape,True); st={'i':0}
                try:
                    ok=True
                    for o in hist+(op,):
                        if not apply(root,o,st): ok=False;break
                    if not ok: continue
                    e=check(root)
                    assert not e, (hist,op,e)
                except AssertionError: raise
                except Exception as ex:
                    continue
                trans+=1
                k=hash(canon(root,{}))
                if k not in seen: seen[k]=hist+(op,); nxt.append(hist+(op,))
        frontier=nxt
        print(shape,'depth',depth,'states',len(seen),'frontier',len(frontier),'transitions',trans,'t',round(time.time()-t0,1))
        if time.time()-t0>150: break
