import sys, itertools, math, collections, time
sys.path.insert(0,'/tmp/probe')
import numpy as np, pandas as pd
import bt
from bt.core import StrategyBase, Security, Strategy
from copy import deepcopy

dts = pd.date_range('2020-01-01', periods=3)
data = pd.DataFrame({'a':[4.0, 2.0, 8.0], 'b':[1.0, 2.0, 0.5]}, index=dts)

def build(shape, intpos):
    if shape=='flat':
        root = StrategyBase('r', [Security('a'), Security('b')])
    elif shape=='nested':
        s1 = StrategyBase('s1', [Security('a'), Security('b')])
        s2 = StrategyBase('s2', [Security('a')])
        root = StrategyBase('r', [s1, s2, Security('b')])
    root.use_integer_positions(intpos)
    root.setup(data)
    root.adjust(64.0)
    root.update(dts[0])
    return root

def ops_for(shape):
    ops=[]
    ops.append(('next',))
    ops.append(('update',))
    ops.append(('adjust', 16.0)); ops.append(('adjust',-8.0))
    if shape=='flat':
        for c in 'ab':
            for amt in (16.0,-16.0, 5.0):
                ops.append(('alloc', (), c, amt))
            ops.append(('reb', (), c, 0.5)); ops.append(('reb',(),c,-0.25))
            ops.append(('close',(),c))
            ops.append(('transact',('%s'%c,),3.0))
        ops.append(('flatten',()))
    else:
        ops.append(('alloc',(), 's1', 32.0)); ops.append(('alloc',(),'s2',16.0)); ops.append(('alloc',(),'s1',-8.0))
        ops.append(('alloc',('s1',),'a',8.0)); ops.append(('alloc',('s1',),'b',-4.0)); ops.append(('alloc',('s2',),'a',8.0))
        ops.append(('alloc',(),'b',8.0))
        ops.append(('reb',(),'s1',0.5)); ops.append(('reb',('s1',),'a',0.5)); ops.append(('reb',(),'s2',0.25))
        ops.append(('close',(),'s1')); ops.append(('close',('s1',),'a')); ops.append(('flatten',('s1',)))
        ops.append(('flatten',()))
    return ops

def node(root, path):
    n=root
    for p in path: n=n[p]
    return n

def apply(root, op, st):
    k=op[0]
    if k=='next':
        if st['i']>=len(dts)-1: return False
        st['i']+=1; root.update(dts[st['i']])
    elif k=='update': root.update(root.now)
    elif k=='adjust': root.adjust(op[1])
    elif k=='alloc': node(root,op[1]).allocate(op[3], child=op[2])
    elif k=='reb': node(root,op[1]).rebalance(op[3], op[2])
    elif k=='close': node(root,op[1]).close(op[2])
    elif k=='flatten': node(root,op[1]).flatten()
    elif k=='transact': node(root,op[1]).transact(op[2])
    return True

def check(root):
    errs=[]
    for n in root.members:
        if isinstance(n, StrategyBase):
            v = n.value
            s = n.capital + sum(c.value for c in n.children.values())
            if abs(v-s)>1e-9: errs.append(('value',n.full_name,v,s))
            for c in n.children.values():
                w = c.weight
                ew = c.value/v if abs(v)>1e-16 else 0.0
                if abs(w-ew)>1e-9: errs.append(('weight',c.full_name,w,ew))
        else:
            p = n.price
            ev = n.position*p*n.multiplier if not np.isnan(p) else 0
            if abs(n.value-ev)>1e-9: errs.append(('secvalue',n.full_name,n.value,ev, n.position, p))
    return errs

t0=time.time(); nexec=0; bad=collections.Counter(); ex={}
exc=collections.Counter()
for shape in ('flat','nested'):
  for intpos in (True, False):
    ops=ops_for(shape)
    for depth in (1,2,3):
        for seq in itertools.product(ops, repeat=depth):
            root=build(shape,intpos); st={'i':0}; nexec+=1
            try:
                for op in seq:
                    if not apply(root,op,st): break
                    e=check(root)
                    if e:
                        k=(shape,intpos,e[0][0])
                        bad[k]+=1
                        ex.setdefault(k,(seq,e))
                        break
            except Exception as e:
                exc[(shape,intpos,str(e)[:50])]+=1
                ex.setdefault(('exc',shape,intpos,str(e)[:50]),seq)
print(nexec, time.time()-t0)
for k,v in bad.items(): print(k,v)
for k,v in exc.items(): print(k,v)
for k,v in ex.items(): print(k,v)
