import sys, warnings, itertools
warnings.simplefilter('ignore')
sys.path.insert(0,'/tmp/probe')
import numpy as np, pandas as pd
pd.set_option('display.width',250); pd.set_option('display.max_columns',30)
import bt
from bt.core import StrategyBase, SecurityBase
from bt import algos as A
dts = pd.date_range('2020-01-29', periods=7)
data = pd.DataFrame({'a':[4.0, 2.0, 8.0, 4,4,2,3], 'b':[1.0, 2.0, 0.5,1,2,1,3], 'c':[np.nan, np.nan, 5,6,7,6,5]}, index=dts)
bo = pd.DataFrame({'a':[0.5]*7, 'b':[0.25]*7, 'c':[0.0]*7}, index=dts)
def mk():
    c1 = bt.Strategy('c1', [A.RunDaily(), A.SelectAll(), A.WeighEqually(), A.Rebalance()], ['a','b','c'])
    c2 = bt.Strategy('c2', [A.RunWeekly(), A.SelectThese(['a']), A.WeighSpecified(a=-0.5), A.Rebalance()], ['a'])
    return bt.Strategy('s', [A.CapitalFlow(50.), A.RunDaily(), A.WeighSpecified(c1=0.5,c2=0.25,b=0.125), A.Rebalance()], [c1,c2,'b'])
for intpos, comm, useb in itertools.product((True,False),(None, lambda q,p: abs(q)*p*0.01), (False,True)):
    t = bt.Backtest(mk(), data, initial_capital=10000., integer_positions=intpos, commissions=comm, additional_data={'bidoffer':bo} if useb else None); t.run()
    root=t.strategy
    secs=[m for m in root.members if isinstance(m, SecurityBase)]
    strats=[m for m in root.members if isinstance(m, StrategyBase)]
    idx=root.values.index
    worst=0
    for i in range(1,len(idx)):
        d0,d1=idx[i-1],idx[i]
        pnl=0
        for s in secs:
            p0=s.positions.iloc[i-1]
            if p0!=0: pnl+=p0*(s.prices.iloc[i]-s.prices.iloc[i-1])*s.multiplier
        fees=sum(x.fees.iloc[i] for x in strats)
        bop=root.bidoffers_paid.iloc[i] if useb else 0.0
        exp = pnl + root.flows.iloc[i] - fees - bop
        got = root.values.iloc[i]-root.values.iloc[i-1]
        worst=max(worst,abs(exp-got))
        # C03
        pr = root.prices.iloc[i-1]*root.values.iloc[i]/(root.values.iloc[i-1]+root.flows.iloc[i])
        worst=max(worst,abs(pr-root.prices.iloc[i]))
        # C07 per node
        for n in strats:
            own=[c for c in n.children.values() if isinstance(c,SecurityBase)]
            subs=[c for c in n.children.values() if isinstance(c,StrategyBase)]
            dcash = n.cash.iloc[i]-n.cash.iloc[i-1]
            e = n.flows.iloc[i] - sum(c.outlays.iloc[i] for c in own) - n.fees.iloc[i] - sum(c.flows.iloc[i] for c in subs)
            worst=max(worst,abs(dcash-e))
    print(intpos, comm is not None, useb, 'worst residual', worst)
