import sys, warnings, itertools
warnings.simplefilter('ignore')
sys.path.insert(0,'/tmp/probe')
import numpy as np, pandas as pd
import bt
from bt import algos as A
dts = pd.bdate_range('2019-12-20', periods=15)
rng=np.random.RandomState(5)
data = pd.DataFrame(np.round(100*np.exp(np.cumsum(rng.normal(0,0.02,size=(15,3)),axis=0)),2), index=dts, columns=list('abc'))
bo = pd.DataFrame(0.1, index=dts, columns=list('abc'))
def mk(flow=None):
    st=[A.RunDaily()]
    if flow: st.append(A.CapitalFlow(flow))
    st += [A.SelectAll(), A.WeighSpecified(a=0.5,b=0.25,c=-0.25), A.Rebalance()]
    c1 = bt.Strategy('c1', [A.RunWeekly(), A.SelectAll(), A.WeighEqually(), A.Rebalance()], ['a','b'])
    return bt.Strategy('s', st), bt.Strategy('n', [A.RunDaily()]+([A.CapitalFlow(flow)] if flow else [])+[A.WeighSpecified(c1=0.5,c=0.25), A.Rebalance()], [c1,'c'])
for comm,useb in itertools.product((None, lambda q,p: abs(q)*p*0.01),(False,True)):
  for which in (0,1):
    res={}
    for cap in (1e3,1e6,64e6):
        t=bt.Backtest(mk()[which], data, initial_capital=cap, integer_positions=False, commissions=comm, additional_data={'bidoffer':bo} if useb else None); t.run()
        res[cap]=t.strategy.prices.values
    d=max(np.max(np.abs(res[c]/res[1e6]-1)) for c in res)
    # flow invariance (no costs only)
    out=''
    if comm is None and not useb:
        t=bt.Backtest(mk(flow=5000.)[which], data, initial_capital=1e6, integer_positions=False); t.run()
        out=' flowinv %.2e'%np.max(np.abs(t.strategy.prices.values/res[1e6]-1))
    print(which, comm is not None, useb, 'scale maxrel %.2e'%d, out)
