import sys, warnings, random, itertools, time
warnings.simplefilter('ignore')
sys.path.insert(0,'/tmp/probe')
import numpy as np, pandas as pd
import bt
from bt import algos as A
from bt.core import SecurityBase, StrategyBase
dts = pd.bdate_range('2019-12-20', periods=30)
rng = np.random.RandomState(3)
cols=['a','b','c','d']
base = pd.DataFrame(np.round(100*np.exp(np.cumsum(rng.normal(0,0.02,size=(30,4)),axis=0)),2), index=dts, columns=cols)
base.loc[dts[:6],'d']=np.nan
lb = pd.DateOffset(days=10)
def stacks(data):
    sig = (data > data.rolling(3).mean())
    tw = pd.DataFrame(0.25, index=data.index[::4], columns=cols[:3])
    return {
     'eq': lambda: [A.RunWeekly(), A.SelectAll(), A.WeighEqually(), A.Rebalance()],
     'eq-eop': lambda: [A.RunWeekly(run_on_end_of_period=True), A.SelectAll(), A.WeighEqually(), A.Rebalance()],
     'hasdata-invvol': lambda: [A.RunWeekly(), A.SelectHasData(lookback=lb, min_count=4), A.WeighInvVol(lookback=lb, lag=pd.DateOffset(days=1)), A.Rebalance()],
     'erc': lambda: [A.RunWeekly(), A.RunAfterDate(dts[9]), A.SelectHasData(lookback=lb, min_count=6), A.WeighERC(lookback=lb), A.Rebalance()],
     'meanvar': lambda: [A.RunWeekly(), A.RunAfterDate(dts[9]), A.SelectHasData(lookback=lb, min_count=6), A.WeighMeanVar(lookback=lb), A.Rebalance()],
     'mom': lambda: [A.RunWeekly(), A.SelectAll(), A.SelectMomentum(2, lookback=lb, lag=pd.DateOffset(days=1)), A.WeighEqually(), A.Rebalance()],
     'where': lambda: [A.SelectWhere(sig), A.WeighEqually(), A.Rebalance()],
     'target': lambda: [A.WeighTarget(tw), A.Rebalance()],
     'rand': lambda: [A.RunWeekly(), A.SelectAll(), A.SelectRandomly(2), A.WeighRandomly(), A.Rebalance()],
     'rot': lambda: [A.RunWeekly(), A.SelectAll(), A.WeighEqually(), A.LimitDeltas(0.1), A.RebalanceOverTime(3)],
     'targetvol': lambda: [A.RunWeekly(), A.RunAfterDate(dts[9]), A.SelectThese(['a','b','c']), A.WeighEqually(), A.TargetVol(0.1, lookback=lb), A.Rebalance()],
     'setstat': lambda: [A.RunWeekly(), A.SetStat(data.pct_change(3), lag=pd.DateOffset(days=1)), A.SelectN(2), A.WeighEqually(), A.Rebalance()],
    }
def run(name, data, intpos):
    random.seed(1); np.random.seed(1)
    s = bt.Strategy(name, stacks(data)[name]())
    t = bt.Backtest(s, data, integer_positions=intpos, commissions=lambda q,p: abs(q)*p*0.001, initial_capital=100000.)
    t.run(); return t
def hist(t, cut):
    out={}
    for m in t.strategy.members:
        if isinstance(m, StrategyBase):
            for k in ('prices','values','cash','fees','flows'):
                out[(m.full_name,k)] = getattr(m,k).loc[:cut].values.tobytes()
        else:
            for k in ('values','positions','outlays'):
                out[(m.full_name,k)] = getattr(m,k).loc[:cut].values.tobytes()
    return out
t0=time.time(); n=0; bad=0
for name in stacks(base):
  for intpos in (True,False):
    try: ref = run(name, base, intpos)
    except Exception as e: print(name,intpos,'REF EXC',str(e)[:80]); continue
    for ci in (8,15,22):
        cut=dts[ci]
        for kind in ('scale','shuffle','const'):
            d2=base.copy()
            fut=d2.index>cut
            if kind=='scale': d2.loc[fut]=d2.loc[fut]*1.5+1
            elif kind=='shuffle': d2.loc[fut]=d2.loc[fut].values[::-1]
            else: d2.loc[fut]=50.0
            try: t2=run(name,d2,intpos)
            except Exception as e: print(name,intpos,ci,kind,'EXC',str(e)[:60]); continue
            n+=1
            h1=hist(ref,cut); h2=hist(t2,cut)
            if set(h1)!=set(h2) or any(h1[k]!=h2.get(k) for k in h1):
                bad+=1; diffs=[k for k in h1 if h1[k]!=h2.get(k)]
                print('DIFF',name,intpos,ci,kind,diffs[:4])
print(n,bad,time.time()-t0)
