import sys, itertools, math, collections
sys.path.insert(0,'/tmp/probe')
import numpy as np, pandas as pd
import bt
from bt.core import StrategyBase, Security
print(bt.core.__file__)

def mk(price, mult, intpos, fee, spread, pos0):
    dts = pd.date_range('2020-01-01', periods=2)
    data = pd.DataFrame({'a':[price, price]}, index=dts)
    kw = {}
    if spread is not None:
        kw['bidoffer'] = pd.DataFrame({'a':[spread, spread]}, index=dts)
    s = StrategyBase('s', [Security('a', multiplier=mult)])
    s.use_integer_positions(intpos)
    s.set_commissions(fee)
    s.setup(data, **kw)
    s.adjust(10000.0)
    s.update(dts[0])
    c = s['a']
    if pos0:
        c.transact(pos0)
        s.update(dts[0])
    return s, c

fees = {
 'zero': lambda q,p: 0.0,
 'flat1': lambda q,p: 1.0,
 'pct': lambda q,p: abs(q)*p*0.01,
 'max': lambda q,p: max(1.0, abs(q)*0.1),
 'pershare': lambda q,p: abs(q)*0.25,
}
res = collections.Counter()
examples = collections.defaultdict(list)
for price in [1.0, 2.0, 2.5, 10.0, 100.0]:
  for mult in [1.0, 2.0]:
    for fname, fee in fees.items():
      for spread in [None, 0.0, 0.5]:
        for pos0 in [0, 3, -3, 10, -10]:
          for amount in [x*0.5 for x in range(-80, 81)]:
            s, c = mk(price, mult, True, fee, spread, pos0)
            cap0 = s.capital; p0 = c.position
            def cost(q):
                sp = 0 if spread is None else spread
                return q*price*mult + abs(q)*0.5*sp*mult + (fee(q, price*mult) if q!=0 else 0.0)
            try:
                c.allocate(amount)
            except Exception as e:
                k = ('raise', str(e)[:30])
                res[k]+=1
                if len(examples[k])<5: examples[k].append((price,mult,fname,spread,pos0,amount))
                continue
            q = c.position - p0
            spent = cap0 - s.capital
            ok = True
            v0 = p0*price*mult
            if amount == 0:
                kind = 'zero'; ok = (q==0)
            elif abs(amount + v0) < 1e-12 and p0 != 0:
                kind='close'; ok = (c.position==0)
            else:
                kind='norm'
                if q != int(q): ok=False; kind='nonint'
                elif spent > amount + 1e-9: ok=False; kind='overspend'
                else:
                    # largest q with cost(q)<=amount
                    if cost(q+1) <= amount + 1e-12: ok=False; kind='notlargest'
                    if abs(spent - cost(q))>1e-9: ok=False; kind='costmismatch'
            k=(kind, ok)
            res[k]+=1
            if not ok and len(examples[k])<8: examples[k].append((price,mult,fname,spread,pos0,amount,q,spent))
for k,v in sorted(res.items(), key=str): print(k, v)
for k,v in examples.items(): print(k, v)
