import sys, itertools, math, collections
import os; sys.path.insert(0, os.environ.get('BUILD','/tmp/probe'))
import numpy as np, pandas as pd
import bt
from bt.core import StrategyBase, Security
exec(open('/tmp/probe/p/c05.py').read().split("fees = {")[0].split("def mk")[0])
exec("def mk"+open('/tmp/probe/p/c05.py').read().split("def mk")[1].split("fees = {")[0])
fees = {
 'zero': lambda q,p: 0.0,
 'flat1': lambda q,p: 1.0,
 'pct': lambda q,p: abs(q)*p*0.01,
 'max': lambda q,p: max(1.0, abs(q)*0.1),
 'pershare': lambda q,p: abs(q)*0.25,
}
cls = collections.Counter(); ex=collections.defaultdict(list)
for price in [3.3, 0.7, 101.37, 12.5]:
  for mult in [1.0, 2.0]:
    for fname, fee in fees.items():
      for spread in [None, 0.0, 0.5]:
        for pos0 in [0, 3, -3, 10, -10]:
          for amount in [x*0.37 for x in range(-60, 61)]:
            s, c = mk(price, mult, True, fee, spread, pos0)
            cap0 = s.capital; p0 = c.position
            sp = 0 if spread is None else spread
            def cost(q): return q*price*mult + abs(q)*0.5*sp*mult + (fee(q, price*mult) if q!=0 else 0.0)
            v0=p0*price*mult
            if amount==0 or (abs(amount+v0)<1e-12): continue
            # reference: largest integer q with cost(q)<=amount
            q0 = math.floor(amount/(price*mult))
            qref=None
            for q in range(q0+3, q0-60, -1):
                if cost(q) <= amount + 1e-12: qref=q; break
            try:
                c.allocate(amount); q = c.position-p0; out=('q',q)
            except Exception as e:
                out=('raise',str(e)[:12]); q=None
            if q is not None and q==qref: continue
            # classify
            qi = amount/(price*mult)
            if (p0>0) or (p0==0 and amount>0): qi=math.floor(qi)
            else: qi=math.ceil(qi)
            if out[0]=='raise': k='RAISE '+out[1]
            elif qi==0 and q==0: k='K1 rounds-to-zero'
            elif qi==-p0 and q==-p0: k='K2 lands-on-closeout'
            else: k='OTHER'
            cls[k]+=1
            if len(ex[k])<6: ex[k].append((price,mult,fname,spread,pos0,amount,out,qref))
print(cls)
for k,v in ex.items(): print(k, v)
