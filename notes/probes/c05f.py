import sys, itertools, math, collections
sys.path.insert(0,'/tmp/probe')
import numpy as np, pandas as pd
import bt
from bt.core import StrategyBase, Security
src=open('/tmp/probe/p/c05.py').read()
exec("def mk"+src.split("def mk")[1].split("fees = {")[0])
fees = {'zero': lambda q,p: 0.0,'flat1': lambda q,p: 1.0,'pct': lambda q,p: abs(q)*p*0.01,'max': lambda q,p: max(1.0, abs(q)*0.1),'pershare': lambda q,p: abs(q)*0.25}
res=collections.Counter(); ex={}
for price in [1.0, 2.5, 100.0]:
  for mult in [1.0, 2.0]:
    for fname, fee in fees.items():
      for spread in [None, 0.5]:
        for pos0 in [0, 3, -3.5]:
          for amount in [x*0.5 for x in range(-40, 41)]:
            s, c = mk(price, mult, False, fee, spread, pos0)
            cap0=s.capital; p0=c.position; v0=p0*price*mult
            if amount==0 or abs(amount+v0)<1e-12: continue
            try: c.allocate(amount)
            except Exception as e:
                k=('raise',fname,spread is not None,str(e)[:20]); res[k]+=1; ex.setdefault(k,(price,mult,pos0,amount)); continue
            spent=cap0-s.capital
            ok = abs(spent-amount)<=1e-7
            k=('ok' if ok else 'mismatch', fname, spread is not None)
            res[k]+=1
            if not ok: ex.setdefault(k,(price,mult,pos0,amount,c.position-p0,spent))
for k,v in sorted(res.items(), key=str): print(k,v, ex.get(k))
