import sys
sys.path.insert(0,'/tmp/probe')
import numpy as np, pandas as pd
import bt
dts = pd.date_range('2020-01-01', periods=3)
data = pd.DataFrame({'a':[4.0, 4.0, 4.0], 'b':[1.0, 1.0, 1.0]}, index=dts)
s = bt.Strategy('s', [], ['a','b'])
s.use_integer_positions(False)
s.setup(data); s.adjust(100.0); s.update(dts[0])
s.temp['weights']={'a':0.5,'b':0.5}; 
bt.algos.Rebalance()(s)
print({c:s[c].weight for c in 'ab'}, s.capital/s.value)
s.temp['weights']={'a':0.5,'b':0.5}; s.temp['cash']=0.5
bt.algos.Rebalance()(s)
print('from invested, cash .5 ->', {c:s[c].weight for c in 'ab'}, s.capital/s.value)
s.temp['weights']={'a':1.0}; s.temp['cash']=0.5
bt.algos.Rebalance()(s)
print('cash .5, a=1 ->', {c:s[c].weight for c in 'ab'}, s.capital/s.value)
# RunIfOutOfBounds
try:
    print(bt.algos.RunIfOutOfBounds(0.1)(s))
except Exception as e: print('OOB', type(e).__name__, e)
