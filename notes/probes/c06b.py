import sys, itertools, collections, os, math, warnings
warnings.simplefilter('ignore')
sys.path.insert(0, os.environ.get('BUILD','/tmp/probe'))
import numpy as np, pandas as pd
import bt
from bt import algos as A
from bt.core import StrategyBase
print(bt.core.__file__)
dts = pd.date_range('2020-01-01', periods=4)
paths = {'a':[4.0,2.0,8.0,4.0],'b':[1.0,2.0,0.5,1.0],'c':[2.0,2.0,4.0,1.0]}
data = pd.DataFrame(paths,index=dts)
fees = {'none':None,'pct':lambda q,p: abs(q)*p*0.125,'flat':lambda q,p: 1.0}
targets=[{},{'a':1.0},{'a':0.5,'b':0.5},{'a':0.25,'b':0.25,'c':0.5},{'b':-0.5,'c':0.5},{'c':0.25}]
cashes=[None,0.0,0.25,0.5]
bad=collections.Counter(); ex={}; n=0
for intpos,fname in itertools.product((False,True),fees):
  fee=fees[fname]
  for steps in itertools.product(list(itertools.product(range(len(targets)),cashes)), repeat=2):
    s=bt.Strategy('s',[],['a','b','c']); s.use_integer_positions(intpos)
    if fee: s.set_commissions(fee)
    s.setup(data); s.adjust(1024.0); s.update(dts[0])
    ok=True
    for i,(ti,cash) in enumerate(steps):
        if i>0: s.update(dts[i])
        tw=targets[ti]
        s.temp={'weights':dict(tw)}
        if cash is not None: s.temp['cash']=cash
        base=s.value
        pos0={k:(s[k].position if k in s.children else 0.0) for k in 'abc'}
        try: A.Rebalance()(s)
        except Exception as e:
            bad['EXC '+str(e)[:30],intpos,fname]+=1; ex.setdefault(('EXC '+str(e)[:30],intpos,fname),(steps,i)); ok=False; break
        n+=1
        c = cash or 0.0
        for k in 'abc':
            p=paths[k][i]
            posk = s[k].position if k in s.children else 0.0
            val = posk*p
            q = posk-pos0[k]
            cost = (fee(q,p) if (fee and q!=0) else 0.0)
            if k in tw and tw[k]!=0:
                tgt=(1-c)*tw[k]*base
                tol = cost + (p if intpos else 0.0) + 1e-9*base
                if abs(val-tgt)>tol:
                    bad['target',intpos,fname]+=1; ex.setdefault(('target',intpos,fname),(steps,i,k,val,tgt,tol)); ok=False
            else:
                if abs(posk)>1e-9:
                    bad['notclosed',intpos,fname]+=1; ex.setdefault(('notclosed',intpos,fname),(steps,i,k,posk)); ok=False
        if not ok: break
print(n)
for k,v in sorted(bad.items(),key=str): print(k,v,ex[k])
