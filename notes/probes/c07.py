import sys, itertools, collections, time, warnings
warnings.simplefilter('ignore')
sys.path.insert(0,'/tmp/probe')
import numpy as np, pandas as pd
import bt
from bt.core import StrategyBase, Security, SecurityBase
dts = pd.date_range('2020-01-01', periods=3)
data = pd.DataFrame({'a':[4.0, 2.0, 8.0], 'b':[1.0, 2.0, 0.5]}, index=dts)
bo = pd.DataFrame({'a':[0.5]*3,'b':[0.25]*3}, index=dts)
FEES={'none':lambda q,p:0.0,'mix':lambda q,p: 0.5+abs(q)*p*0.125}
def build(fee,useb,intpos):
    s1 = StrategyBase('s1', [Security('a'), Security('b', multiplier=2)])
    s2 = StrategyBase('s2', [Security('a')])
    r = StrategyBase('r', [s1, s2, Security('b')])
    r.use_integer_positions(intpos); r.set_commissions(FEES[fee])
    r.setup(data, **({'bidoffer':bo} if useb else {})); r.adjust(256.0); r.update(dts[0])
    return r
ops=[('next',),('adjust',16.0,True),('adjust',-8.0,False),
     ('alloc',(),'s1',64.0),('alloc',(),'s2',32.0),('alloc',(),'s1',-16.0),('allocself',('s1',),24.0),('allocself',(),32.0),
     ('alloc',('s1',),'a',8.0),('alloc',('s1',),'b',-6.0),('alloc',('s2',),'a',12.0),('alloc',(),'b',9.0),
     ('reb',(),'s1',0.5),('reb',('s1',),'b',0.5),('close',(),'s1'),('close',('s1',),'a'),('flatten',('s1',)),('flatten',()),
     ('tx',('s1','a'),3.0,None),('tx',('b',),-2.0,1.25)]
def node(r,path):
    n=r
    for p in path: n=n[p]
    return n
def apply(r,op,st,log):
    k=op[0]
    if k=='next':
        if st['i']>=2: return False
        st['i']+=1; r.update(dts[st['i']])
    elif k=='adjust': r.adjust(op[1],flow=op[2]); log['ext'+('F' if op[2] else 'N')]+=op[1]
    elif k=='alloc': node(r,op[1]).allocate(op[3],child=op[2])
    elif k=='allocself': node(r,op[1]).allocate(op[2])
    elif k=='reb': node(r,op[1]).rebalance(op[3],op[2])
    elif k=='close': node(r,op[1]).close(op[2])
    elif k=='flatten': node(r,op[1]).flatten()
    elif k=='tx':
        if op[3] is not None and not st['useb']: return False
        sec=node(r,op[1]); sec.transact(op[2],price=op[3]); log['custom'][sec.full_name]=op[3]
    return True
def snap(r):
    r.update(r.now)
    S={}
    for m in r.members:
        if isinstance(m,StrategyBase): S[m.full_name]=dict(cap=m.capital,flows=float(m.flows.iloc[-1]),fees=float(m.fees.iloc[-1]),value=m.value)
        else: S[m.full_name]=dict(pos=m.position,price=m.price,mult=m.multiplier,bo=m._bidoffer)
    return S
bad=collections.Counter(); ex={}; n=0; t0=time.time()
for fee,useb,intpos in itertools.product(FEES,(False,True),(True,False)):
  for depth in (1,2,3):
    for seq in itertools.product(ops,repeat=depth):
        if depth==3 and (fee,useb,intpos)!=('mix',True,True): continue
        r=build(fee,useb,intpos); st={'i':0,'useb':useb}
        try:
            for op in seq:
                before=snap(r); log=collections.defaultdict(float); log['custom']={}
                if not apply(r,op,st,log): break
                after=snap(r); n+=1
                if op[0]=='next': continue
                # per node ledger
                strat=[m for m in r.members if isinstance(m,StrategyBase)]
                totcost=0
                for s in strat:
                    own=[c for c in s.children.values() if isinstance(c,SecurityBase)]
                    subs=[c for c in s.children.values() if isinstance(c,StrategyBase)]
                    exp=after[s.full_name]['flows']-before[s.full_name]['flows']
                    if s is r: exp+=log['extN']
                    exp-=sum(after[c.full_name]['flows']-before[c.full_name]['flows'] for c in subs)
                    fees=0
                    for c in own:
                        q=after[c.full_name]['pos']-before[c.full_name]['pos']
                        if q==0: continue
                        p=before[c.full_name]['price'] if before[c.full_name]['price']==before[c.full_name]['price'] else after[c.full_name]['price']
                        p=after[c.full_name]['price']; m=c.multiplier
                        pc=log['custom'].get(c.full_name)
                        if pc is None: out=q*p*m+abs(q)*0.5*after[c.full_name]['bo']*m; f=FEES[fee](q,p*m)
                        else: out=q*pc*m; f=FEES[fee](q,pc*m)
                        exp-=out+f; fees+=f; totcost+=f+(out-q*p*m)
                    got=after[s.full_name]['cap']-before[s.full_name]['cap']
                    if abs(got-exp)>1e-9: bad['ledger',op[0]]+=1; ex.setdefault(('ledger',op[0]),(fee,useb,intpos,seq,s.full_name,got,exp))
                    gf=after[s.full_name]['fees']-before[s.full_name]['fees']
                    if abs(gf-fees)>1e-9: bad['fees',op[0]]+=1; ex.setdefault(('fees',op[0]),(fee,useb,intpos,seq,s.full_name,gf,fees))
                # root flows only from external flow
                if abs((after['r']['flows']-before['r']['flows'])-log['extF'])>1e-9: bad['rootflow',op[0]]+=1; ex.setdefault(('rootflow',op[0]),(seq,))
                # value conservation
                dv=after['r']['value']-before['r']['value']
                if abs(dv-(log['extF']+log['extN']-totcost))>1e-9: bad['value',op[0]]+=1; ex.setdefault(('value',op[0]),(fee,useb,intpos,seq,dv,log['extF']+log['extN']-totcost))
        except ZeroDivisionError: pass
        except Exception as e:
            if 'Cannot allocate' in str(e) or 'Newton' in str(e) or 'difference' in str(e): continue
            bad['EXC '+str(e)[:40]]+=1; ex.setdefault('EXC '+str(e)[:40],seq)
print(n, round(time.time()-t0))
for k,v in sorted(bad.items(),key=str): print(k,v,ex[k])
