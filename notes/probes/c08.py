import sys
sys.path.insert(0,'/tmp/probe')
import numpy as np, pandas as pd
import bt
from bt.core import *
dts = pd.date_range('2020-01-01', periods=4)
data = pd.DataFrame({'a':[4.0, 2.0, 8.0, 4], 'b':[1.0, 2.0, 0.5,1]}, index=dts)
s = StrategyBase('s', [Security('a'), Security('b')])
s.setup(data); s.adjust(100.0); s.update(dts[0]); s.update(dts[1])
s.adjust(10.0)
print('stale', s.root.stale, 'cash read (no refresh):'); print(s.cash)
s.update(s.now); print(s.cash)
s.allocate(20, 'a')
print(s.cash.loc[s.now], s.capital, s.values.loc[s.now], s.fees.loc[s.now])
print(s['a'].positions, s['a'].outlays)
