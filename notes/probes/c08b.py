import sys, itertools, collections, warnings
warnings.simplefilter('ignore')
sys.path.insert(0,'/tmp/probe')
import numpy as np, pandas as pd
import bt
from bt.core import *
dts = pd.date_range('2020-01-01', periods=3)
data = pd.DataFrame({'a':[4.0, 2.0, 8.0], 'b':[1.0, 2.0, 0.5], 'c':[100.,101.,99.]}, index=dts)
bo = pd.DataFrame({'a':[0.5]*3,'b':[0.25]*3,'c':[0.0]*3}, index=dts)
cp = pd.DataFrame({'c':[0.5,0.25,0.5]}, index=dts)
def build(fi):
    if fi:
        r = FixedIncomeStrategy('r', children=[CouponPayingSecurity('c'), Security('a'), HedgeSecurity('b')])
    else:
        s1 = StrategyBase('s1', [Security('a'), Security('b')])
        r = StrategyBase('r', [s1, Security('b')])
    r.use_integer_positions(False)
    r.set_commissions(lambda q,p: 0.5)
    r.setup(data, bidoffer=bo, coupons=cp); r.adjust(64.0); r.update(dts[0])
    return r
def node(r,path):
    n=r
    for p in path: n=n[p]
    return n
ops_mv=[('next',),('adjust',8.0),('alloc',(),'s1',32.0),('alloc',('s1',),'a',8.0),('alloc',(),'b',-4.0),('reb',(),'s1',0.25),('close',('s1',),'a'),('flatten',())]
ops_fi=[('next',),('adjust',8.0),('tx',(),'c',8.0),('tx',(),'a',-2.0),('tx',(),'b',4.0),('close',(),'c'),('flatten',())]
def apply(r,op,st):
    k=op[0]
    if k=='next':
        if st['i']>=2: return False
        st['i']+=1; r.update(dts[st['i']])
    elif k=='adjust': r.adjust(op[1])
    elif k=='alloc': node(r,op[1]).allocate(op[3],child=op[2])
    elif k=='reb': node(r,op[1]).rebalance(op[3],op[2])
    elif k=='close': node(r,op[1]).close(op[2])
    elif k=='flatten': node(r,op[1]).flatten()
    elif k=='tx': node(r,op[1]).transact(op[3],child=op[2])
    return True
def props(n):
    names=[p for p in dir(type(n)) if isinstance(getattr(type(n),p,None),property)]
    return [p for p in names if p not in ('members','securities','universe','full_name','fixed_income')]
def val(x):
    if isinstance(x,(pd.Series,pd.DataFrame)): return ('pd',tuple(map(str,x.index)) ,x.to_numpy(dtype=float,na_value=np.nan).round(12).tobytes())
    if isinstance(x,float) or isinstance(x,np.floating): return round(float(x),12)
    return x
bad=collections.Counter(); ex={}; n=0
for fi in (False,True):
  ops=ops_fi if fi else ops_mv
  for depth in (1,2,3):
    for seq in itertools.product(ops,repeat=depth):
        # enumerate nodes/props from a scratch build
        r0=build(fi)
        try:
            st={'i':0}
            for op in seq:
                if not apply(r0,op,st): raise StopIteration
        except StopIteration: continue
        except Exception: continue
        targets=[(tuple(m.full_name.split('>')[1:]),p) for m in r0.members for p in props(m)]
        for path,p in targets:
            outs=[]
            for explicit in (False,True):
                r=build(fi); st={'i':0}
                try:
                    for op in seq: apply(r,op,st)
                    if explicit: r.update(r.now)
                    nd=node(r,path); outs.append(val(getattr(nd,p)))
                except Exception as e: outs.append(('EXC',type(e).__name__))
            n+=1
            if outs[0]!=outs[1]:
                k=(fi,type(node(r,path)).__name__,p); bad[k]+=1; ex.setdefault(k,seq)
print(n)
for k,v in sorted(bad.items(),key=str): print(k,v,ex[k])
