import sys, itertools, collections, time, warnings
warnings.simplefilter('ignore')
sys.path.insert(0,'/tmp/probe')
import numpy as np, pandas as pd
import bt
from bt.core import StrategyBase, Security, SecurityBase
src=open('/tmp/probe/p/c01.py').read()
exec(src.split("t0=time.time()")[0].split("import bt\n",1)[1].replace("from bt.core import StrategyBase, Security, Strategy\n",""))
def live(root):
    S={}
    for m in root.members:
        if isinstance(m,StrategyBase): S[m.full_name]=dict(value=m.value,cash=m.capital,price=m.price,notl=m.notional_value)
        else: S[m.full_name]=dict(value=m.value,position=m.position,notl=m.notional_value)
    return S
def rows(root,i):
    S={}
    for m in root.members:
        if isinstance(m,StrategyBase): S[m.full_name]=dict(value=m.values.iloc[i],cash=m.cash.iloc[i],price=m.prices.iloc[i],notl=m.notional_values.iloc[i])
        else: S[m.full_name]=dict(value=m.values.iloc[i],position=m.positions.iloc[i],notl=m.notional_values.iloc[i])
    return S
def allrows(root,upto):
    out={}
    for m in root.members:
        names=['values','cash','prices','notional_values','fees','flows'] if isinstance(m,StrategyBase) else ['values','positions','notional_values','outlays']
        for nm in names:
            ser=getattr(m,nm)
            out[(m.full_name,nm)]=ser.iloc[:upto+1].values.tobytes()
            assert ser.index[-1]<=root.now, (m.full_name,nm,ser.index[-1],root.now)
    return out
def full(root):
    out={}
    for m in root.members:
        names=['values','cash','prices','notional_values','fees','flows'] if isinstance(m,StrategyBase) else ['values','positions','notional_values','outlays']
        for nm in names: out[(m.full_name,nm)]=getattr(m,nm).values.tobytes()
        out[(m.full_name,'w')]=m.weight; out[(m.full_name,'v')]=m.value
    return out
bad=collections.Counter(); ex={}; n=0; t0=time.time()
for shape in ('flat','nested'):
  ops=ops_for(shape)
  for intpos in (True,False):
    for depth in (1,2,3):
      for seq in itertools.product(ops,repeat=depth):
        if shape=='nested' and depth==3 and not intpos: continue
        root=build(shape,intpos); st={'i':0}; frozen={}
        try:
            for op in seq:
                pre=live(root) if op[0]=='next' else None
                i0=st['i']
                if not apply(root,op,st): break
                n+=1
                if op[0]=='next':
                    r=rows(root,i0)
                    for k in pre:
                        for f in pre[k]:
                            a,b=pre[k][f],r[k][f]
                            if not (abs(a-b)<=1e-9 or (a!=a and b!=b)): bad['row!=eod',f]+=1; ex.setdefault(('row!=eod',f),(shape,intpos,seq,k,a,b))
                    frozen[i0]=allrows(root,i0)
                for i,fr in frozen.items():
                    cur=allrows(root,i)
                    for k,v in fr.items():
                        if cur.get(k)!=v: bad['pastchanged',k[1]]+=1; ex.setdefault(('pastchanged',k[1]),(shape,intpos,seq,k,i))
            # idempotence
            root.update(root.now); a=full(root); root.update(root.now); root.update(root.now); b=full(root)
            if a!=b: bad['idem']+=1; ex.setdefault('idem',(shape,intpos,seq,[k for k in a if a[k]!=b[k]]))
        except ZeroDivisionError: pass
        except AssertionError as e: bad['beyond-now']+=1; ex.setdefault('beyond-now',(shape,seq,str(e)))
        except Exception as e:
            if 'Cannot allocate' in str(e): continue
            bad['EXC '+str(e)[:40]]+=1; ex.setdefault('EXC '+str(e)[:40],(shape,intpos,seq))
print(n, round(time.time()-t0))
for k,v in sorted(bad.items(),key=str): print(k,v,ex[k])
