import sys
sys.path.insert(0,'/tmp/probe')
import numpy as np, pandas as pd
import bt
dts = pd.date_range('2020-01-30', periods=8)
data = pd.DataFrame({'a':[4.0, 2.0, 8.0, 4,4,2,3,5], 'b':[1.0, 2.0, 0.5,1,2,1,3,1]}, index=dts)
def child(gate):
    return bt.Strategy('c', [gate(), bt.algos.SelectAll(), bt.algos.WeighSpecified(a=0.5,b=0.25), bt.algos.Rebalance()], ['a','b'])
def parent(ch, wts, gate):
    return bt.Strategy('p', [gate(), bt.algos.WeighSpecified(**wts), bt.algos.Rebalance()], [ch, 'b'])
for gname, gate in [('daily', bt.algos.RunDaily), ('monthly', bt.algos.RunMonthly), ('once', bt.algos.RunOnce), ('every2', lambda: bt.algos.RunEveryNPeriods(2)), ('afterdays', lambda: bt.algos.RunAfterDays(2))]:
  for intpos in (True, False):
    for comm in (None, lambda q,p: abs(q)*p*0.01):
      for pw in ({'c':0.5,'b':0.5}, {'b':1.0}, {'c':1.0}):
        ch = child(gate)
        alone = bt.Backtest(ch, data, integer_positions=intpos, commissions=comm); alone.run()
        p = parent(ch, pw, bt.algos.RunDaily)
        nested = bt.Backtest(p, data, integer_positions=intpos, commissions=comm, initial_capital=5000.); 
        try:
            nested.run()
        except Exception as e:
            print(gname,intpos,comm is not None,pw,'EXC',type(e).__name__,str(e)[:80]); continue
        a = alone.strategy.prices; n = nested.strategy['c'].prices
        u = nested.strategy.universe['c']
        ok = np.allclose(a.values, n.values, rtol=1e-12, atol=0)
        ok2 = np.allclose(u.values, n.values, rtol=1e-12, atol=0, equal_nan=True)
        print(gname,intpos,comm is not None,pw, 'OK' if ok else 'DIFF', 'univ-ok' if ok2 else 'univ-diff')
        if not ok: print(pd.DataFrame({'alone':a,'nested':n}))
