import sys, warnings
warnings.simplefilter('ignore')
sys.path.insert(0,'/tmp/probe')
import numpy as np, pandas as pd
pd.set_option('display.width',250)
import bt
from bt import algos as A
dts = pd.date_range('2020-01-01', periods=6)
data = pd.DataFrame({'a':[4,4,8,16,4,4.], 'b':[1.0]*6}, index=dts)
ch = bt.Strategy('c', [A.RunDaily(), A.WeighSpecified(a=-2.0, b=3.0), A.Rebalance()], ['a','b'])
alone = bt.Backtest(ch, data, integer_positions=False); alone.run()
p = bt.Strategy('p', [A.RunDaily(), A.WeighSpecified(c=0.25), A.Rebalance()], [ch])
nested = bt.Backtest(p, data, integer_positions=False)
try:
    nested.run()
    print(pd.DataFrame({'alone':alone.strategy.prices,'nested':nested.strategy['c'].prices, 'cval': nested.strategy['c'].values, 'pval':nested.strategy.values}))
    print(nested.strategy['c'].bankrupt, nested.strategy['c']._paper.bankrupt, nested.strategy.bankrupt)
except Exception as e:
    print('EXC', type(e).__name__, e)
    print(alone.strategy.prices)
