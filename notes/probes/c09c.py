import sys, warnings, itertools, random, collections
warnings.simplefilter('ignore')
sys.path.insert(0,'/tmp/probe')
import numpy as np, pandas as pd
import bt
from bt import algos as A
dts = pd.bdate_range('2019-12-24', periods=12)
rng=np.random.RandomState(7)
cols=list('abc')
data = pd.DataFrame(np.round(20*np.exp(np.cumsum(rng.normal(0,0.05,size=(12,3)),axis=0)),2), index=dts, columns=cols)
data.loc[dts[:3],'c']=np.nan
bo = pd.DataFrame(0.05, index=dts, columns=cols)
lb=pd.DateOffset(days=5)
gates={'daily':A.RunDaily,'weekly':A.RunWeekly,'weekly-eop':lambda:A.RunWeekly(run_on_end_of_period=True),'monthly':A.RunMonthly,'yearly':lambda:A.RunYearly(run_on_first_date=False),
       'daily+after3':lambda:bt.AlgoStack(A.RunDaily(),A.RunAfterDays(3)),'daily+every2':lambda:bt.AlgoStack(A.RunDaily(),A.RunEveryNPeriods(2))}
bodies={'eq':lambda:[A.SelectAll(),A.WeighEqually(),A.Rebalance()],
        'mom':lambda:[A.SelectAll(),A.SelectMomentum(1,lookback=lb),A.WeighEqually(),A.Rebalance()],
        'ls':lambda:[A.SelectThese(['a','b']),A.WeighSpecified(a=0.75,b=-0.5),A.Rebalance()],
        'rot':lambda:[A.SelectAll(),A.WeighEqually(),A.RebalanceOverTime(2)],
        'invvol':lambda:[A.SelectHasData(lookback=lb,min_count=3),A.WeighInvVol(lookback=lb),A.Rebalance()],
        'cash':lambda:[A.SelectAll(),A.WeighEqually(),(lambda t:(t.temp.__setitem__('cash',0.25) or True)),A.Rebalance()]}
class Sched(bt.Algo):
    def __init__(self,ws): super().__init__(); self.ws=ws; self.i=0
    def __call__(self,t):
        w=self.ws[self.i%len(self.ws)]; self.i+=1
        t.temp['weights']={'c1':w} if w is not None else {}
        return True
parents={'never':[None],'once1':[1.0],'half':[0.5],'cycle':[0.0,0.25,1.0],'defund':[1.0,1.0,0.0,0.0,0.5]}
bad=collections.Counter(); ex={}; n=0
for (gn,g),(bn,b) in itertools.product(gates.items(),bodies.items()):
  for intpos,comm,useb in itertools.product((True,False),(None,lambda q,p:abs(q)*p*0.01),(False,True)):
    def child(): return bt.Strategy('c1',[g()]+b(),cols)
    kw=dict(integer_positions=intpos,commissions=comm,additional_data={'bidoffer':bo} if useb else None)
    try:
        alone=bt.Backtest(child(),data,**kw); alone.run()
    except Exception as e:
        bad['alone-EXC '+str(e)[:30]]+=1; ex.setdefault('alone-EXC '+str(e)[:30],(gn,bn,intpos,comm is not None,useb)); continue
    for pn,ws in parents.items():
      for cap in (5e3,1e6):
        p=bt.Strategy('p',[A.RunDaily(),Sched(ws),A.Rebalance()],[child(),'a'])
        try:
            nt=bt.Backtest(p,data,initial_capital=cap,**kw); nt.run()
        except Exception as e:
            bad['nested-EXC '+str(e)[:30]]+=1; ex.setdefault('nested-EXC '+str(e)[:30],(gn,bn,intpos,comm is not None,useb,pn,cap)); continue
        n+=1
        a=alone.strategy.prices.values; c=nt.strategy['c1'].prices.values; u=nt.strategy.universe['c1'].values
        if not np.allclose(a,c,rtol=1e-12,atol=0): bad['index']+=1; ex.setdefault('index',(gn,bn,intpos,comm is not None,useb,pn,cap,a[-3:],c[-3:]))
        if not np.allclose(u,c,rtol=1e-12,atol=0): bad['universe']+=1; ex.setdefault('universe',(gn,bn,pn,u[:3],c[:3]))
print(n)
for k,v in sorted(bad.items(),key=str): print(k,v,ex[k])
