import sys, warnings, random, traceback
warnings.simplefilter('ignore')
sys.path.insert(0,'/tmp/probe')
import numpy as np, pandas as pd
import bt
from bt import algos as A
dts = pd.bdate_range('2019-11-01', periods=60)
rng = np.random.RandomState(3)
cols=['a','b','c','d']
data = pd.DataFrame(100*np.exp(np.cumsum(rng.normal(0,0.01,size=(60,4)),axis=0)), index=dts, columns=cols)
data.loc[dts[:10],'d']=np.nan
sig = data > data.rolling(5).mean()
tw = pd.DataFrame(0.25, index=dts[::5], columns=cols)
lb = pd.DateOffset(days=20)
stacks = {
 'eq': [A.RunMonthly(), A.SelectAll(), A.WeighEqually(), A.Rebalance()],
 'hasdata-invvol': [A.RunWeekly(), A.SelectHasData(lookback=lb, min_count=5), A.WeighInvVol(lookback=lb), A.Rebalance()],
 'erc': [A.RunMonthly(), A.RunAfterDays(25), A.SelectHasData(lookback=lb, min_count=10), A.WeighERC(lookback=lb), A.Rebalance()],
 'meanvar': [A.RunMonthly(), A.RunAfterDays(25), A.SelectHasData(lookback=lb, min_count=10), A.WeighMeanVar(lookback=lb), A.Rebalance()],
 'mom': [A.RunWeekly(), A.SelectAll(), A.SelectMomentum(2, lookback=lb, lag=pd.DateOffset(days=1)), A.WeighEqually(), A.Rebalance()],
 'where-target': [A.SelectWhere(sig), A.WeighTarget(tw), A.Rebalance()],
 'rand': [A.RunWeekly(), A.SelectAll(), A.SelectRandomly(2), A.WeighRandomly(), A.LimitWeights(0.6), A.Rebalance()],
 'limitdeltas-rot': [A.RunWeekly(), A.SelectAll(), A.WeighEqually(), A.LimitDeltas(0.1), A.RebalanceOverTime(3)],
 'targetvol': [A.RunMonthly(), A.RunAfterDays(25), A.SelectAll(), A.WeighEqually(), A.TargetVol(0.1, lookback=lb), A.Rebalance()],
 'pte': [A.RunAfterDays(25), A.Or([A.RunOnce(), A.PTE_Rebalance(0.01, pd.DataFrame(0.25,index=dts,columns=cols), lookback=lb)]), A.SelectAll(), A.WeighEqually(), A.Rebalance()],
 'flow-oob': [A.CapitalFlow(100.), A.SelectAll(), A.WeighEqually(), A.Or([A.RunMonthly(), A.RunIfOutOfBounds(0.01)]), A.Rebalance()],
 'setstat-n': [A.RunWeekly(), A.SetStat(data.pct_change(5)), A.SelectN(0.5), A.WeighEqually(), A.CloseDead(), A.Rebalance()],
 'regex-types': [A.RunMonthly(), A.SelectAll(), A.SelectRegex('[ab]'), A.SelectTypes(include_types=(bt.Security,)), A.WeighEqually(), A.ScaleWeights(0.5), A.Rebalance()],
 'cash': [A.RunWeekly(), A.SelectAll(), A.WeighEqually(), lambda t: (t.temp.__setitem__('cash',0.25) or True), A.Rebalance()],
}
for name, st in stacks.items():
  for intpos in (True, False):
    for comm in (None, lambda q,p: max(1, abs(q)*0.01)):
        random.seed(1); np.random.seed(1)
        kids = cols if name in ('regex-types',) else None
        s = bt.Strategy(name, st, kids)
        try:
            t = bt.Backtest(s, data, integer_positions=intpos, commissions=comm, initial_capital=100000.)
            r = bt.run(t)
            fin = np.isfinite(t.strategy.prices).all() and np.isfinite(t.strategy.values).all()
            r.stats; t.weights; t.security_weights; t.positions; t.turnover; t.herfindahl_index; r.get_transactions(); r.get_weights(); r.get_security_weights()
            import io, contextlib
            with contextlib.redirect_stdout(io.StringIO()): r.display(); r.display_monthly_returns()
            print(name,intpos,comm is not None,'ok', 'finite' if fin else 'NONFINITE', round(t.strategy.prices.iloc[-1],3))
        except Exception as e:
            print(name,intpos,comm is not None,'EXC',type(e).__name__,str(e)[:150])
            traceback.print_exc()
