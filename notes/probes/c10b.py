import sys, warnings
warnings.simplefilter('ignore')
sys.path.insert(0,'/tmp/probe')
import numpy as np, pandas as pd
import bt
from bt import algos as A
from bt.core import *
nan=float('nan')
dts=pd.date_range('2020-01-01',periods=4)
def attempt(name, fn):
    try: fn(); print(name,'-> NO EXCEPTION')
    except Exception as e: print(name,'-> raises',type(e).__name__, str(e)[:70])
def tree(data, fi=False, **kw):
    s=(FixedIncomeStrategy if fi else StrategyBase)('s',[Security('a'),CouponPayingSecurity('c')] if fi else [Security('a'),Security('b')])
    s.setup(data, **kw); s.adjust(100.0); s.update(dts[0]); return s
D=pd.DataFrame({'a':[2.0,nan,0.0,2.0],'b':[1.0,1.0,1.0,1.0],'c':[100.,100.,100.,100.]},index=dts)
# 1 trade at NaN price / zero price
def f():
    s=tree(D); s.update(dts[1]); s.allocate(10,'a')
attempt('alloc at NaN price',f)
def f():
    s=tree(D); s.update(dts[2]); s.allocate(10,'a')
attempt('alloc at zero price',f)
def f():
    s=tree(D); s.update(dts[1]); s.rebalance(0.5,'a')
attempt('rebalance at NaN price',f)
def f():
    s=tree(D); s.update(dts[1]); s['a'].transact(5)
attempt('transact at NaN price (then update)',lambda: (f(),))
def f():
    s=tree(D); s.update(dts[1]); s['a'].transact(5); s.update(dts[1]); print('   value',s.value, s['a'].value)
attempt('transact at NaN price + update',f)
def f():
    s=tree(D); s.update(dts[2]); s['a'].transact(5); s.update(dts[2]); print('   value',s.value,s['a'].position)
attempt('transact at zero price + update',f)
# 2 NaN price on open position
def f():
    s=tree(D); s.allocate(10,'a'); s.update(dts[1])
attempt('NaN price on open position',f)
# NaN coupon on open position
cp=pd.DataFrame({'c':[0.5,nan,0.5,0.5]},index=dts)
def f():
    s=tree(D,fi=True,coupons=cp); s.transact(5,'c'); s.update(dts[1])
attempt('NaN coupon on open position',f)
# 3 duplicate tickers
def f():
    d=pd.DataFrame([[1.0,2.0],[1.0,2.0]],index=dts[:2],columns=['a','a']); bt.Backtest(bt.Strategy('s'),d)
attempt('duplicate columns',f)
def f(): bt.Strategy('s',children=['a','a'])
attempt('duplicate children strings',f)
def f(): bt.Strategy('s',children=[bt.Security('a'),bt.Security('a')])
attempt('duplicate children nodes',f)
# 4 zero base
def f():
    s=tree(D.assign(a=[2.0,4.0,4.0,4.0])); s.adjust(-100.0); s.update(dts[0]); s['a'].transact(1); s.update(dts[1])
attempt('return on zero base',f)
# 5 FI child under MV parent
def f():
    c=FixedIncomeStrategy('c',children=[Security('a')]); p=bt.Strategy('p',[],[c]); p.setup(D)
attempt('FI child under MV parent',f)
# 6 custom price without bidoffer
def f():
    s=tree(D); s['a'].transact(1,price=2.5)
attempt('custom price w/o bidoffer',f)
# Backtest-level: strategy that targets a NaN-priced ticker
def f():
    t=bt.Backtest(bt.Strategy('s',[A.WeighSpecified(a=0.5),A.Rebalance()]),D); t.run()
attempt('backtest targeting NaN-priced ticker',f)
