import sys, os; sys.path.insert(0, os.environ.get('BUILD','/tmp/probe'))
import warnings, random, itertools, collections, io, contextlib
warnings.simplefilter('ignore')
import numpy as np, pandas as pd
import bt
from bt import algos as A
dts = pd.bdate_range('2019-12-20', periods=25)
rng = np.random.RandomState(3)
cols=['a','b','c','d']
data = pd.DataFrame(np.round(100*np.exp(np.cumsum(rng.normal(0,0.02,size=(25,4)),axis=0)),2), index=dts, columns=cols)
data.loc[dts[:6],'d']=np.nan
bo = pd.DataFrame(0.05,index=dts,columns=cols)
lb = pd.DateOffset(days=10)
sig = (data > data.rolling(3).mean())
tw = pd.DataFrame(0.25, index=dts[7::4], columns=cols)
gates={'once':lambda:[A.RunOnce()],'daily':lambda:[A.RunDaily()],'weekly':lambda:[A.RunWeekly()],'weekly-eop':lambda:[A.RunWeekly(run_on_end_of_period=True,run_on_last_date=True)],
 'monthly':lambda:[A.RunMonthly()],'quarterly':lambda:[A.RunQuarterly()],'yearly':lambda:[A.RunYearly()],'ondate':lambda:[A.RunOnDate(dts[8],dts[15])],
 'afterdate':lambda:[A.RunAfterDate(dts[8])],'afterdays':lambda:[A.RunAfterDays(8)],'every3':lambda:[A.RunEveryNPeriods(3,1)],
 'or':lambda:[A.Or([A.RunMonthly(),A.RunOnDate(dts[9])])],'not':lambda:[A.Not(A.RunAfterDate(dts[12]))],'oob':lambda:[A.RunAfterDays(7),A.SelectAll(),A.WeighEqually(),A.Or([A.RunOnce(),A.RunIfOutOfBounds(0.05)])]}
sels={'all':lambda:[A.SelectAll()],'these':lambda:[A.SelectThese(['a','b','c'])],'hasdata':lambda:[A.SelectHasData(lookback=lb,min_count=5)],
 'mom':lambda:[A.SelectAll(),A.SelectMomentum(2,lookback=lb,lag=pd.DateOffset(days=1))],'setstat':lambda:[A.SetStat(data.pct_change(3)),A.SelectN(2)],
 'where':lambda:[A.SelectWhere(sig)],'rand':lambda:[A.SelectAll(),A.SelectRandomly(2)],'regex':lambda:[A.SelectAll(),A.SelectRegex('[abc]')]}
wts={'eq':lambda:[A.WeighEqually()],'spec':lambda:[A.WeighSpecified(a=0.5,b=0.25,c=-0.25)],'target':lambda:[A.WeighTarget(tw)],
 'invvol':lambda:[A.WeighInvVol(lookback=lb)],'erc':lambda:[A.WeighERC(lookback=lb)],'meanvar':lambda:[A.WeighMeanVar(lookback=lb)],'rand':lambda:[A.WeighRandomly()]}
mods={'none':lambda:[],'scale':lambda:[A.ScaleWeights(0.5)],'ld':lambda:[A.LimitDeltas(0.1)],'lw':lambda:[A.LimitWeights(0.6)],
 'tvol':lambda:[A.TargetVol(0.1,lookback=lb)],'cash':lambda:[lambda t:(t.temp.__setitem__('cash',0.25) or True)],'flow':lambda:[A.CapitalFlow(1000.)],'dead':lambda:[A.CloseDead()]}
rebs={'reb':lambda:[A.Rebalance()],'rot':lambda:[A.RebalanceOverTime(3)]}
base=('afterdays','hasdata','eq','none','reb')
combos=set()
menus=[gates,sels,wts,mods,rebs]
for i,m in enumerate(menus):
    for k in m:
        c=list(base); c[i]=k; combos.add(tuple(c))
for s_,w_ in itertools.product(sels,wts): combos.add((base[0],s_,w_,base[3],base[4]))
for g_,w_ in itertools.product(gates,wts): combos.add((g_,base[1],w_,base[3],base[4]))
res=collections.Counter(); ex={}
n=0
for combo in sorted(combos):
  g,s_,w_,m_,r_=combo
  for intpos,comm,useb,nested in itertools.product((True,False),(None,lambda q,p:max(1.0,abs(q)*p*0.001)),(False,True),(False,True)):
    random.seed(1); np.random.seed(1)
    stack=gates[g]()+sels[s_]()+wts[w_]()+mods[m_]()+rebs[r_]()
    if nested:
        child=bt.Strategy('c',[A.RunWeekly(),A.SelectThese(['a','b']),A.WeighEqually(),A.Rebalance()],['a','b'])
        strat=bt.Strategy('p',[A.RunMonthly(),A.WeighSpecified(c=0.5,s=0.5),A.Rebalance()],[child,bt.Strategy('s',stack)])
    else: strat=bt.Strategy('s',stack)
    n+=1
    try:
        t=bt.Backtest(strat,data,integer_positions=intpos,commissions=comm,initial_capital=100000.,additional_data={'bidoffer':bo} if useb else None)
        t.run()
        r=bt.backtest.Result(t)
        fin=all(np.isfinite(getattr(m,k).values.astype(float)).all() for m in t.strategy.members for k in (('prices','values','cash','fees') if isinstance(m,bt.core.StrategyBase) else ('values','positions')))
        if not fin: res['NONFINITE']+=1; ex.setdefault('NONFINITE',(combo,intpos,comm is not None,useb,nested)); continue
        try:
            r.stats; t.weights; t.security_weights; t.positions; t.turnover; t.herfindahl_index; r.get_weights(); r.get_security_weights()
            with contextlib.redirect_stdout(io.StringIO()): r.display(); r.display_monthly_returns()
        except Exception as e:
            k='REPORT '+type(e).__name__+' '+str(e)[:50]; res[k]+=1; ex.setdefault(k,(combo,intpos,comm is not None,useb,nested)); continue
        try: r.get_transactions()
        except Exception as e:
            k='TX '+type(e).__name__+' '+str(e)[:40]; res[k]+=1; ex.setdefault(k,(combo,intpos,comm is not None,useb,nested)); continue
        res['ok']+=1
    except Exception as e:
        k='RUN '+type(e).__name__+' '+str(e)[:60]; res[k]+=1; ex.setdefault(k,(combo,intpos,comm is not None,useb,nested))
print(n,len(combos))
for k,v in sorted(res.items(),key=lambda x:-x[1]): print(v,k,ex.get(k))
