import sys, random
sys.path.insert(0,'/tmp/probe')
import numpy as np, pandas as pd
import bt
dts = pd.date_range('2020-01-30', periods=6)
rng = np.random.RandomState(1)
cols = ['aa','bb','cc','dd','ee','ff']
data = pd.DataFrame(rng.randint(1,9,size=(6,6)).astype(float), index=dts, columns=cols)
random.seed(7); np.random.seed(7)
s = bt.Strategy('s', [bt.algos.RunDaily(), bt.algos.SelectAll(), bt.algos.SelectRandomly(2), bt.algos.WeighEqually(), bt.algos.Rebalance()], cols)
t = bt.Backtest(s, data, initial_capital=1000.); t.run()
print(list(t.strategy.universe.columns), [round(x,6) for x in t.strategy.prices.values])
s = bt.Strategy('s', [bt.algos.RunDaily(), bt.algos.SelectAll(), bt.algos.WeighEqually(), bt.algos.Rebalance()], cols)
t = bt.Backtest(s, data, initial_capital=100., commissions=lambda q,p: 1.0); t.run()
print('det', [round(x,9) for x in t.strategy.prices.values], t.strategy.positions.iloc[-1].to_dict())
