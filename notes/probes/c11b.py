import sys, warnings, itertools, random, collections, pickle, hashlib
warnings.simplefilter('ignore')
sys.path.insert(0,'/tmp/probe')
import numpy as np, pandas as pd
import bt
from bt import algos as A
dts = pd.bdate_range('2019-12-24', periods=10)
rng=np.random.RandomState(7)
cols=list('abcd')
d1 = pd.DataFrame(np.round(20*np.exp(np.cumsum(rng.normal(0,0.05,size=(10,4)),axis=0)),2), index=dts, columns=cols)
d2 = d1*1.5+1
tw = pd.DataFrame(0.25,index=dts[::3],columns=cols)
def templates():
    yield 'stateful', bt.Strategy('t',[A.RunAfterDays(2),A.RunEveryNPeriods(2),A.SelectAll(),A.WeighEqually(),A.RebalanceOverTime(2)])
    yield 'random', bt.Strategy('t',[A.RunDaily(),A.SelectAll(),A.SelectRandomly(2),A.WeighRandomly(),A.Rebalance()],cols)
    yield 'targetvol', bt.Strategy('t',[A.RunAfterDate(dts[4]),A.SelectThese(['a','b','c']),A.WeighEqually(),A.TargetVol(0.2,lookback=pd.DateOffset(days=6)),A.Rebalance()])
    c=bt.Strategy('c',[A.RunWeekly(),A.SelectAll(),A.WeighEqually(),A.Rebalance()],['a','b'])
    yield 'nested', bt.Strategy('t',[A.RunOnce(),A.WeighTarget(tw.assign(c=0.5)[['c','d']]),A.Rebalance()],[c,'d'])
def digest_obj(o):
    # structural digest of a strategy template
    out=[]
    def walk(x,depth=0):
        if isinstance(x,(bt.core.Node,bt.core.Algo)):
            out.append(type(x).__name__)
            for k in sorted(vars(x)):
                if k in ('parent','root'): continue
                out.append(k); walk(vars(x)[k],depth+1)
        elif isinstance(x,(pd.DataFrame,pd.Series)): out.append(hashlib.md5(pickle.dumps(x.values.tolist())).hexdigest())
        elif isinstance(x,dict):
            for k in x: out.append(str(k)); walk(x[k],depth+1)
        elif isinstance(x,(list,tuple)):
            for v in x: walk(v,depth+1)
        elif callable(x): out.append('fn')
        else: out.append(repr(x))
    walk(o); return hashlib.md5('|'.join(out).encode()).hexdigest()
def hist(t):
    return hashlib.md5(b''.join(getattr(m,k).values.tobytes() for m in t.strategy.members for k in (('prices','values','cash') if isinstance(m,bt.core.StrategyBase) else ('values','positions')))).hexdigest()
configs=[dict(data=d1,integer_positions=True),dict(data=d2,integer_positions=False,commissions=lambda q,p:abs(q)*p*0.01),dict(data=d1,integer_positions=False)]
bad=collections.Counter(); n=0
for name,tpl in templates():
    solo=[]
    for cfg in configs:
        random.seed(1); np.random.seed(1)
        t=bt.Backtest(tpl,**cfg); random.seed(5); t.run(); solo.append(hist(t))
    td=digest_obj(tpl); dd=[hashlib.md5(pickle.dumps(c['data'].values.tolist())).hexdigest() for c in configs]
    for k in (2,3):
        events=[(e,i) for i in range(k) for e in 'CR']
        for perm in itertools.permutations(events):
            if any(perm.index(('C',i))>perm.index(('R',i)) for i in range(k)): continue
            bts={}
            for e,i in perm:
                if e=='C': bts[i]=bt.Backtest(tpl,**configs[i])
                else: random.seed(5); bts[i].run()
                if digest_obj(tpl)!=td: bad['template-mutated',name]+=1
            n+=1
            for i in range(k):
                if hist(bts[i])!=solo[i]: bad['differs-from-solo',name]+=1
            if [hashlib.md5(pickle.dumps(c['data'].values.tolist())).hexdigest() for c in configs]!=dd: bad['data-mutated',name]+=1
    # rerun
    t=bts[0]; h=hist(t); t.run(); bt.run(t)
    if hist(t)!=h: bad['rerun',name]+=1
print(n,dict(bad))
