import sys, itertools, collections, datetime as dtm
sys.path.insert(0,'/tmp/probe')
import numpy as np, pandas as pd
import bt
from bt import algos as A
class T: pass
def period_key(kind, ts):
    d = ts.to_pydatetime()
    if kind=='D': return d.date()
    if kind=='W': return tuple(d.date().isocalendar())[:2]
    if kind=='M': return (d.year,d.month)
    if kind=='Q': return (d.year,(d.month-1)//3)
    if kind=='Y': return d.year
algs={'D':A.RunDaily,'W':A.RunWeekly,'M':A.RunMonthly,'Q':A.RunQuarterly,'Y':A.RunYearly}
windows = {
 'ny1819': pd.DatetimeIndex([pd.Timestamp(x) for x in ['2018-12-28','2018-12-30','2018-12-31','2018-12-31 12:00','2019-01-01','2019-01-02','2019-01-06','2019-01-07']]),
 'ny2021': pd.DatetimeIndex([pd.Timestamp(x) for x in ['2020-12-27','2020-12-28','2020-12-31','2021-01-01','2021-01-03','2021-01-04','2021-01-04 09:30','2021-01-10']]),
 'leapq': pd.DatetimeIndex([pd.Timestamp(x) for x in ['2020-02-28','2020-02-29','2020-03-01','2020-03-31','2020-03-31 16:00','2020-04-01','2020-06-30','2020-07-01']]),
 'sparse': pd.DatetimeIndex([pd.Timestamp(x) for x in ['2011-01-01','2011-12-31','2012-01-01','2012-12-31','2013-12-30','2014-12-29','2016-01-03','2017-01-08']]),
}
bad=collections.Counter(); ex={}; n=0
for wn, cand in windows.items():
  for r in range(2, len(cand)+1):
    for sub in itertools.combinations(range(len(cand)), r):
        idx = cand[list(sub)]
        data = pd.DataFrame({'a':1.0}, index=idx)
        full = bt.Backtest(bt.Strategy('x'), data).data.index
        for kind, cls in algs.items():
            for f,e,l in itertools.product([True,False],repeat=3):
                algo = cls(run_on_first_date=f, run_on_end_of_period=e, run_on_last_date=l)
                tgt=T(); tgt.data=pd.DataFrame(index=full)
                for i, d in enumerate(full):
                    tgt.now=d; got=bool(algo(tgt)); n+=1
                    if i==0: exp=False
                    elif i==1: exp=f
                    elif i==len(full)-1: exp=l
                    else:
                        other = full[i+1] if e else full[i-1]
                        exp = period_key(kind,d)!=period_key(kind,other)
                    if got!=exp:
                        bad[(wn,kind)]+=1; ex.setdefault((wn,kind),(list(map(str,idx)),str(d),f,e,l,got,exp))
print(n); 
for k,v in bad.items(): print(k,v,ex[k])
