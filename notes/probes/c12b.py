import sys, itertools, collections, warnings
warnings.simplefilter('ignore')
sys.path.insert(0,'/tmp/probe')
import numpy as np, pandas as pd
import bt
from bt import algos as A
class T: pass
dts=pd.date_range('2020-01-01',periods=8)
bad=collections.Counter(); ex={}; n=0
def drive(algo, schedule):
    t=T(); out=[]
    for d in schedule: t.now=d; out.append(bool(algo(t)))
    return out
# schedules: one call per date; and with repeats of each date twice
single=list(dts); double=[d for d in dts for _ in (0,1)]
# RunOnce
for sch in (single,double):
    got=drive(A.RunOnce(),sch); exp=[i==0 for i in range(len(sch))]; n+=1
    if got!=exp: bad['RunOnce']+=1
# RunOnDate
for k in range(0,4):
    for sub in itertools.combinations(list(dts[:4])+[pd.Timestamp('2019-06-01')],k):
        got=drive(A.RunOnDate(*[str(x.date()) for x in sub]),single); exp=[d in sub for d in single]; n+=1
        if got!=exp: bad['RunOnDate']+=1; ex.setdefault('RunOnDate',(sub,got))
# RunAfterDate
for d0 in list(dts)+[pd.Timestamp('2019-12-31'),pd.Timestamp('2020-02-01'),pd.Timestamp('2020-01-03 12:00')]:
    got=drive(A.RunAfterDate(d0),single); exp=[d>d0 for d in single]; n+=1
    if got!=exp: bad['RunAfterDate']+=1
# RunAfterDays
for k in range(0,6):
    got=drive(A.RunAfterDays(k),single); exp=[i>=k for i in range(len(single))]; n+=1
    if got!=exp: bad['RunAfterDays']+=1; ex.setdefault('RunAfterDays',(k,got))
# RunEveryNPeriods
for nn in range(1,5):
    for off in range(0,nn):
        for sch,rep in ((single,1),(double,2)):
            got=drive(A.RunEveryNPeriods(nn,off),sch)
            exp=[]
            for i,d in enumerate(sch):
                di=i//rep; first=(i%rep==0)
                exp.append(first and di>=off and (di-off)%nn==0)
            n+=1
            if got!=exp: bad['RunEveryN']+=1; ex.setdefault('RunEveryN',(nn,off,rep,got,exp))
print(n)
for k,v in bad.items(): print(k,v,ex.get(k))
# in backtests: which dates do gated stacks act on (root, and sub-strategy)
class Log(bt.Algo):
    seen=[]
    def __init__(s,tag): super().__init__(); s.tag=tag
    def __call__(s,t): Log.seen.append((s.tag,t.name,t.now, t.root is t)); return True
data=pd.DataFrame({'a':range(1,9)},index=dts,dtype=float)
for gname,g in (('once',A.RunOnce),('every2',lambda:A.RunEveryNPeriods(2)),('after2',lambda:A.RunAfterDays(2)),('daily',A.RunDaily)):
    Log.seen.clear()
    s=bt.Strategy('r',[g(),Log(gname)])
    t=bt.Backtest(s,data); t.run()
    print(gname,[str(x[2].date()) for x in Log.seen][:5])
