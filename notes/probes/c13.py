import sys, itertools, collections
sys.path.insert(0,'/tmp/probe')
import bt
from bt.core import AlgoStack, Algo, Strategy
from bt import algos as A
LOG=[]
class Rec(Algo):
    def __init__(self, tag, ret, ra):
        super().__init__(); self.tag=tag; self.ret=ret
        if ra is not None: self.run_always=ra
    def __call__(self, target): LOG.append(self.tag); return self.ret
def ref_stack(members):
    """members: list of ('rec',tag,ret,ra) or ('stack',[...]) or ('or',[...]) or ('not',m). returns (result, log)"""
    log=[]
    def run(m):
        k=m[0]
        if k=='rec': log.append(m[1]); return m[2]
        if k=='stack':
            res=True
            for x in m[1]:
                if res: res=run(x)
                elif x[0]=='rec' and x[3]: run(x)
            return res
        if k=='or':
            r=False
            for x in m[1]: r = run(x) or r
            return r
        if k=='not': return not run(m[1])
    return run(('stack',members)), log
def build(m):
    k=m[0]
    if k=='rec': return Rec(m[1],m[2],m[3])
    if k=='stack': return AlgoStack(*[build(x) for x in m[1]])
    if k=='or': return A.Or([build(x) for x in m[1]])
    if k=='not': return A.Not(build(m[1]))
atoms=[(r,ra) for r in (True,False) for ra in (None,True,False)]
n=0;bad=0
for L in range(0,5):
    for combo in itertools.product(atoms, repeat=L):
        members=[('rec',i,r,ra) for i,(r,ra) in enumerate(combo)]
        exp=ref_stack(members)
        LOG.clear(); got=AlgoStack(*[build(m) for m in members])(None)
        n+=1
        if bool(got)!=bool(exp[0]) or LOG!=exp[1]:
            bad+=1
            if bad<5: print('DIFF',combo,got,LOG,exp)
# nested: outer length<=3 where each member is atom or inner stack (len<=2) or Or (len 2) or Not(atom)
inner=[]
for L in (1,2):
    for combo in itertools.product(atoms, repeat=L): inner.append(('stack',[('rec','i%d'%j,r,ra) for j,(r,ra) in enumerate(combo)]))
    for combo in itertools.product(atoms, repeat=L): inner.append(('or',[('rec','o%d'%j,r,ra) for j,(r,ra) in enumerate(combo)]))
for a in atoms: inner.append(('not',('rec','n',a[0],a[1])))
elems=[('rec','x',r,ra) for r,ra in atoms]+inner
for L in (1,2):
    for combo in itertools.product(range(len(elems)), repeat=L):
        members=[]
        for pos,ci in enumerate(combo):
            e=elems[ci]
            def retag(m,pfx):
                if m[0]=='rec': return ('rec',pfx+str(m[1]),m[2],m[3])
                if m[0] in ('stack','or'): return (m[0],[retag(x,pfx) for x in m[1]])
                return ('not',retag(m[1],pfx))
            members.append(retag(e,'p%d_'%pos))
        exp=ref_stack(members)
        LOG.clear(); got=AlgoStack(*[build(m) for m in members])(None); n+=1
        if bool(got)!=bool(exp[0]) or LOG!=exp[1]:
            bad+=1
            if bad<5: print('DIFFN',members,got,LOG,exp)
print(n,bad)
