import sys, itertools, collections, math, warnings
warnings.simplefilter('ignore')
sys.path.insert(0,'/tmp/probe')
import numpy as np, pandas as pd
import bt
from bt import algos as A
nan=float('nan')
dts = pd.date_range('2020-01-01', periods=4)
class Tgt:
    """minimal strategy-like target backed by real StrategyBase.universe semantics"""
def mk_target(rows, now_i, tickers=('a','b','c')):
    data = pd.DataFrame(rows, index=dts, columns=list(tickers), dtype=float)
    s = bt.Strategy('s')
    s.setup(data)
    s.update(dts[now_i])   # no securities -> fine
    return s, data
bad=collections.Counter(); ex={}; n=0
cur_alpha=[nan,-1.0,0.0,1.0,2.0]
hist_patterns=[(1.0,1.0,2.0),(nan,nan,1.0),(1.0,nan,4.0),(nan,nan,nan)]
for cur in itertools.product(cur_alpha, repeat=3):
  for hp in itertools.product(range(len(hist_patterns)), repeat=3):
    rows=[[hist_patterns[hp[j]][i] for j in range(3)] for i in range(3)]+[list(cur)]
    s,data=mk_target(rows,3)
    tick=['a','b','c']
    def tradable(t): 
        v=cur[tick.index(t)]; return (v==v) and v>0
    def hasdata(t):
        v=cur[tick.index(t)]; return v==v
    # SelectAll
    for ind,ineg in itertools.product((False,True),repeat=2):
        s.temp={}
        A.SelectAll(include_no_data=ind, include_negative=ineg)(s)
        got=list(s.temp['selected'])
        if ind: exp=tick
        elif ineg: exp=[t for t in tick if hasdata(t)]
        else: exp=[t for t in tick if tradable(t)]
        n+=1
        if got!=exp: bad['SelectAll',ind,ineg]+=1; ex.setdefault(('SelectAll',ind,ineg),(rows,got,exp))
        # SelectThese
        for sub in (['a'],['c','a'],['a','b','c']):
            s.temp={}
            A.SelectThese(sub, include_no_data=ind, include_negative=ineg)(s)
            got=list(s.temp['selected'])
            if ind: exp=sub
            elif ineg: exp=[t for t in sub if hasdata(t)]
            else: exp=[t for t in sub if tradable(t)]
            n+=1
            if got!=exp: bad['SelectThese',ind,ineg]+=1; ex.setdefault(('SelectThese',ind,ineg),(rows,sub,got,exp))
        # SelectHasData lookback 2 days, min_count 2, with/without preselection
        for pre in (None,['a','b'],['c']):
          for mc in (1,2,3):
            s.temp={} if pre is None else {'selected':list(pre)}
            A.SelectHasData(lookback=pd.DateOffset(days=2), min_count=mc, include_no_data=ind, include_negative=ineg)(s)
            got=list(s.temp['selected'])
            base = tick if pre is None else pre
            def cnt(t):
                j=tick.index(t); return sum(1 for i in (1,2,3) if rows[i][j]==rows[i][j])
            exp=[t for t in base if cnt(t)>=mc]
            if not ind:
                exp=[t for t in exp if hasdata(t)]
                if not ineg: exp=[t for t in exp if tradable(t)]
            n+=1
            if got!=exp: bad['SelectHasData',ind,ineg]+=1; ex.setdefault(('SelectHasData',ind,ineg),(rows,pre,mc,got,exp))
print(n)
for k,v in bad.items(): print(k,v,ex[k])
