import sys, itertools, collections, math, warnings, random
warnings.simplefilter('ignore')
sys.path.insert(0,'/tmp/probe')
import numpy as np, pandas as pd
import bt
from bt import algos as A
nan=float('nan')
bad=collections.Counter(); ex={}; n=0
# SelectN
tick=['a','b','c','d']
for stat in itertools.product([nan,1.0,2.0,3.0], repeat=4):
  for nn in (0,1,2,3,5,0.5,0.75,0.25):
    for desc,aon,fs in itertools.product((True,False),repeat=3):
      for pre in (None,['a','b'],['d','c','a']):
        s=bt.Strategy('s'); s.temp={'stat':pd.Series(stat,index=tick)}
        if pre is not None: s.temp['selected']=list(pre)
        A.SelectN(nn, sort_descending=desc, all_or_none=aon, filter_selected=fs)(s)
        got=list(s.temp['selected'])
        pool=[t for t,v in zip(tick,stat) if v==v]
        if fs and pre is not None: pool=[t for t in pool if t in pre]
        keep = nn if nn>=1 or nn==0 else int(nn*len(pool))
        if nn==0: keep=0
        val=dict(zip(tick,stat))
        n+=1
        ok=True
        if aon and len(pool)<keep: ok = (got==[])
        else:
            k=min(keep,len(pool))
            ok = len(got)==k and len(set(got))==k and all(g in pool for g in got)
            if ok and k>0:
                rest=[t for t in pool if t not in got]
                if desc: ok = all(val[g]>=val[r] for g in got for r in rest) and all(val[got[i]]>=val[got[i+1]] for i in range(k-1))
                else: ok = all(val[g]<=val[r] for g in got for r in rest) and all(val[got[i]]<=val[got[i+1]] for i in range(k-1))
        if not ok: bad['SelectN',nn,desc,aon,fs]+=1; ex.setdefault(('SelectN',nn,desc,aon,fs),(stat,pre,got))
print('SelectN',n)
# StatTotalReturn windows: daily index 8 days, lookback d in 1..3 days, lag 0..2 days
dts=pd.date_range('2020-01-01',periods=8)
prices=pd.DataFrame({'a':[1,2,4,8,16,32,64,128.], 'b':[nan,nan,3,6,nan,12,24,48.]},index=dts)
m=0
for now_i in range(0,8):
  for lb in (1,2,3):
    for lag in (0,1,2):
      for sel in (['a'],['b'],['a','b']):
        s=bt.Strategy('s'); s.setup(prices); s.update(dts[now_i]); s.temp={'selected':sel}
        try:
            r=A.StatTotalReturn(lookback=pd.DateOffset(days=lb), lag=pd.DateOffset(days=lag))(s)
        except Exception as e:
            r=('EXC',type(e).__name__)
        t0=now_i-lag
        m+=1
        if t0<0: exp=False; ok=(r is False) or (r==False)
        else:
            lo=max(t0-lb,0)
            exp={t:(prices[t].iloc[t0]/prices[t].iloc[lo]-1) for t in sel}
            ok = r is True and all((abs(s.temp['stat'][t]-exp[t])<1e-12) or (exp[t]!=exp[t] and s.temp['stat'][t]!=s.temp['stat'][t]) for t in sel)
        if not ok: bad['STR',lb,lag]+=1; ex.setdefault(('STR',lb,lag),(now_i,sel,r,exp,dict(s.temp.get('stat',{}))))
print('STR',m)
for k,v in bad.items(): print(k,v,ex[k])
