import sys, itertools, collections, warnings, random
warnings.simplefilter('ignore')
sys.path.insert(0,'/tmp/probe')
import numpy as np, pandas as pd
import bt
from bt import algos as A
nan=float('nan')
dts=pd.date_range('2020-01-01',periods=4)
tick=['a','b','c']
bad=collections.Counter(); ex={}; n=0
def tradable(v): return v==v and v>0
for cur in itertools.product([nan,-1.0,0.0,1.0,2.0],repeat=3):
    rows=[[1.0,1.0,1.0]]*3+[list(cur)]
    data=pd.DataFrame(rows,index=dts,columns=tick,dtype=float)
    s=bt.Strategy('s'); s.setup(data); s.update(dts[3])
    val=dict(zip(tick,cur))
    # SelectWhere: signal rows
    for sigrow in itertools.product([True,False,nan],repeat=3):
      for present in (True,False):
        for ind,ineg in itertools.product((False,True),repeat=2):
            sig=pd.DataFrame([list(sigrow)],index=[dts[3] if present else dts[2]],columns=tick).astype(object)
            s.temp={'selected':['zzz']}
            r=A.SelectWhere(sig,include_no_data=ind,include_negative=ineg)(s); n+=1
            got=list(s.temp['selected'])
            if not present: exp=['zzz']
            else:
                exp=[t for t,v in zip(tick,sigrow) if v is True]
                if not ind:
                    exp=[t for t in exp if val[t]==val[t]]
                    if not ineg: exp=[t for t in exp if val[t]>0]
            if got!=exp or r is not True: bad['SelectWhere']+=1; ex.setdefault('SelectWhere',(cur,sigrow,present,ind,ineg,got,exp))
    # SelectRandomly
    for pre in (None,['a','b'],['c','b','a']):
      for k in (None,0,1,2,5):
        for seed in (0,1,2):
          for ind,ineg in itertools.product((False,True),repeat=2):
            random.seed(seed); s.temp={} if pre is None else {'selected':list(pre)}
            A.SelectRandomly(k,include_no_data=ind,include_negative=ineg)(s); got=list(s.temp['selected']); n+=1
            pool=list(pre) if pre is not None else list(tick)
            if not ind:
                pool=[t for t in pool if val[t]==val[t]]
                if not ineg: pool=[t for t in pool if val[t]>0]
            if k is None: ok = got==pool
            else: ok = len(got)==min(k,len(pool)) and len(set(got))==len(got) and all(g in pool for g in got)
            random.seed(seed); s.temp={} if pre is None else {'selected':list(pre)}
            A.SelectRandomly(k,include_no_data=ind,include_negative=ineg)(s)
            if list(s.temp['selected'])!=got: ok=False
            if not ok: bad['SelectRandomly']+=1; ex.setdefault('SelectRandomly',(cur,pre,k,seed,ind,ineg,got,pool))
# SetStat lag / missing date
stat=pd.DataFrame({'a':[1.0,2,3],'b':[3.0,2,1]},index=[dts[0],dts[1],dts[3]])
data=pd.DataFrame(1.0,index=dts,columns=tick)
for now_i in range(4):
    for lag in (0,1,2):
        s=bt.Strategy('s'); s.setup(data); s.update(dts[now_i]); s.temp={}
        r=A.SetStat(stat,lag=pd.DateOffset(days=lag))(s); n+=1
        t0=dts[now_i]-pd.DateOffset(days=lag)
        if t0 in stat.index:
            ok = r is True and s.temp['stat'].equals(stat.loc[t0])
        else: ok = r is False and 'stat' not in s.temp
        if not ok: bad['SetStat']+=1; ex.setdefault('SetStat',(now_i,lag,r))
# SelectRegex / SelectTypes / SelectActive
s=bt.Strategy('s',[],[bt.Security('ab'),bt.core.CouponPayingSecurity('cb'),bt.Strategy('sub')])
for pre in itertools.chain.from_iterable(itertools.permutations(['ab','cb','sub','zz'],k) for k in range(0,4)):
    for rx in ('a','b$','^c','x'):
        s.temp={'selected':list(pre)}; A.SelectRegex(rx)(s); n+=1
        import re
        if s.temp['selected']!=[t for t in pre if re.search(rx,t)]: bad['SelectRegex']+=1
    for inc,exc in (((bt.core.Node,),()),((bt.core.SecurityBase,),()),((bt.core.SecurityBase,),(bt.core.CouponPayingSecurity,)),((bt.core.StrategyBase,),())):
        for usepre in (True,False):
            s.temp={'selected':list(pre)} if usepre else {}
            A.SelectTypes(inc,exc)(s); n+=1
            exp=[k for k,c in s.children.items() if isinstance(c,inc) and not (exc and isinstance(c,exc))]
            if usepre: exp=[k for k in exp if k in pre]
            if s.temp['selected']!=exp: bad['SelectTypes']+=1; ex.setdefault('SelectTypes',(pre,inc,exc,usepre,s.temp['selected'],exp))
    for closed,rolled in itertools.product((None,set(),{'ab'},{'cb','zz'}),repeat=2):
        s.temp={'selected':list(pre)}; s.perm={}
        if closed is not None: s.perm['closed']=set(closed)
        if rolled is not None: s.perm['rolled']=set(rolled)
        A.SelectActive()(s); n+=1
        exp=[t for t in pre if t not in (closed or set()) and t not in (rolled or set())]
        if s.temp['selected']!=exp: bad['SelectActive']+=1
print(n)
for k,v in bad.items(): print(k,v,ex.get(k))
