import sys, itertools, collections, math, warnings, random
warnings.simplefilter('ignore')
sys.path.insert(0,'/tmp/probe')
import numpy as np, pandas as pd
import bt
from bt import algos as A
from bt.core import StrategyBase, Security
nan=float('nan')
bad=collections.Counter(); ex={}; n=0
# LimitWeights
ws=[x/8 for x in range(0,9)]
for w in itertools.product(ws, repeat=3):
    if abs(sum(w)-1)>1e-12: continue
    for lim in (0.25,1/3,0.375,0.5,0.75,1.0):
        s=bt.Strategy('s'); s.temp={'weights':dict(zip('abc',w))}
        try: A.LimitWeights(lim)(s); got=dict(s.temp['weights'])
        except Exception as e: got=('EXC',type(e).__name__,str(e)[:50])
        n+=1
        if lim < 1/3 - 1e-15:
            ok = got=={}
        else:
            ok = isinstance(got,dict) and set(got)==set('abc') and all(v<=lim+1e-12 for v in got.values()) and abs(sum(got.values())-1)<1e-9
        if not ok: bad['LimitWeights',lim]+=1; ex.setdefault(('LimitWeights',lim),(w,got))
print('LW',n)
# LimitDeltas against live weights
dts=pd.date_range('2020-01-01',periods=2)
data=pd.DataFrame({'a':[1.0,1.0],'b':[2.0,2.0],'c':[4.0,4.0]},index=dts)
m=0
for cur in itertools.product([0,0.25,0.5], repeat=2):
  for tgt in itertools.product([None,0.0,0.25,0.75,-0.25], repeat=3):
    for lim in (0.125, 0.5, {'a':0.125}):
        s=bt.Strategy('s',[],['a','b','c']); s.use_integer_positions(False); s.setup(data); s.adjust(64.0); s.update(dts[0])
        for t,w in zip('ab',cur):
            if w: s.rebalance(w,t)
        s.update(dts[0])
        curw={t:(s[t].weight if t in s.children else 0.0) for t in 'abc'}
        tw={t:w for t,w in zip('abc',tgt) if w is not None}
        s.temp={'weights':dict(tw)}
        A.LimitDeltas(lim)(s); got=s.temp['weights']; m+=1
        ok=True
        for t in 'abc':
            l = lim if not isinstance(lim,dict) else lim.get(t)
            want = tw.get(t,0.0); c=curw[t]
            g = got.get(t, 0.0)
            if l is None: exp=want
            else:
                d=want-c
                exp = want if abs(d)<=l else c+math.copysign(l,d)
            if abs(g-exp)>1e-12: ok=False
            if t not in tw and t in got and abs(got[t]-exp)>1e-12: ok=False
        if not ok: bad['LimitDeltas',str(lim)]+=1; ex.setdefault(('LimitDeltas',str(lim)),(cur,tgt,curw,got))
print('LD',m)
# WeighRandomly
k=0
for seed in range(20):
  for nsel in (0,1,2,3):
    for bounds in ((0.0,1.0),(0.25,0.5),(0.0,0.25),(-0.5,1.0)):
      for tot in (1,0.5):
        random.seed(seed)
        s=bt.Strategy('s'); s.temp={'selected':list('abc')[:nsel]}
        A.WeighRandomly(bounds, tot)(s); got=s.temp['weights']; k+=1
        feas = nsel>0 and nsel*bounds[1]>=tot and nsel*bounds[0]<=tot
        if not feas: ok = got=={} 
        else: ok = set(got)==set('abc'[:nsel]) and all(bounds[0]-1e-12<=v<=bounds[1]+1e-12 for v in got.values()) and abs(sum(got.values())-tot)<1e-9
        if not ok: bad['WeighRandomly',bounds,tot]+=1; ex.setdefault(('WeighRandomly',bounds,tot),(seed,nsel,got))
print('WR',k)
for kk,v in bad.items(): print(kk,v,ex[kk])
