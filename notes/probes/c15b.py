import sys, itertools, collections, math, warnings, random
warnings.simplefilter('ignore')
sys.path.insert(0,'/tmp/probe')
import numpy as np, pandas as pd
import bt
from bt import algos as A
dts=pd.date_range('2020-01-01',periods=12)
rets={'a':[0.01,-0.02,0.03,0.01,-0.01,0.02,0.00,0.01,-0.03,0.02,0.01],
      'b':[-0.01,0.01,0.02,-0.02,0.01,0.00,0.02,-0.01,0.01,0.03,-0.02],
      'c':[0.02,0.02,-0.01,0.00,0.01,-0.02,0.01,0.03,-0.01,0.00,0.01]}
px={k:[100.0] for k in rets}
for k in rets:
    for r in rets[k]: px[k].append(px[k][-1]*(1+r))
data=pd.DataFrame(px,index=dts)
def window_returns(cols, now_i, lb_days, lag_days):
    t0=now_i-lag_days; lo=max(t0-lb_days,0)
    P=np.array([[px[c][i] for c in cols] for i in range(lo,t0+1)])
    return P[1:]/P[:-1]-1
bad=collections.Counter(); ex={}
n=0
for now_i in range(4,12):
  for lb in (3,5,8):
    for lag in (0,1,2):
      if now_i-lag-lb<0 and False: continue
      s=bt.Strategy('s'); s.setup(data); s.update(dts[now_i])
      # InvVol
      for sel in (['a','b'],['a','b','c']):
        s.temp={'selected':sel}
        A.WeighInvVol(lookback=pd.DateOffset(days=lb), lag=pd.DateOffset(days=lag))(s)
        got=s.temp['weights']
        R=window_returns(sel,now_i,lb,lag)
        if R.shape[0]>=2:
            vol=R.std(axis=0,ddof=1); w=(1/vol)/np.sum(1/vol)
            ok=all(abs(got[c]-w[i])<1e-9 for i,c in enumerate(sel))
            n+=1
            if not ok: bad['invvol']+=1; ex.setdefault('invvol',(now_i,lb,lag,sel,dict(got),w))
        # TargetVol
        tw={'a':0.5,'b':0.25,'c':0.25}
        s.temp={'weights':dict(tw)}
        try:
            A.TargetVol(0.1, lookback=pd.DateOffset(days=lb), lag=pd.DateOffset(days=lag))(s)
            got=s.temp['weights']
            R=window_returns(['a','b','c'],now_i,lb,lag)
            if R.shape[0]>=2:
                C=np.cov(R.T,ddof=1); wv=np.array([got[c] for c in 'abc'])
                vol=math.sqrt(wv@C@wv*252); n+=1
                if abs(vol-0.1)>1e-9: bad['tvol']+=1; ex.setdefault('tvol',(now_i,lb,lag,vol))
        except Exception as e:
            bad['tvol-exc '+type(e).__name__]+=1; ex.setdefault('tvol-exc '+type(e).__name__,(now_i,lb,lag,str(e)[:80]))
      # ERC
      s.temp={'selected':['a','b','c']}
      try:
        A.WeighERC(lookback=pd.DateOffset(days=lb), lag=pd.DateOffset(days=lag), covar_method='standard')(s)
        got=s.temp['weights']; wv=np.array([got[c] for c in 'abc'])
        R=window_returns(['a','b','c'],now_i,lb,lag)
        if R.shape[0]>=3:
            C=np.cov(R.T,ddof=1); rc=wv*(C@wv); rc=rc/rc.sum(); n+=1
            if not (abs(wv.sum()-1)<1e-6 and (wv>=-1e-12).all() and np.max(np.abs(rc-1/3))<1e-3): bad['erc']+=1; ex.setdefault('erc',(now_i,lb,lag,wv,rc))
      except Exception as e:
        bad['erc-exc '+type(e).__name__]+=1; ex.setdefault('erc-exc '+type(e).__name__,(now_i,lb,lag,str(e)[:80]))
print(n)
for k,v in bad.items(): print(k,v,ex[k])
