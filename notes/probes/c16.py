import sys
sys.path.insert(0,'/tmp/probe')
import numpy as np, pandas as pd
import bt
dts = pd.date_range('2020-01-01', periods=6)
class Spy(bt.Algo):
    def __init__(self): super().__init__(); self.calls=[]
    def __call__(self, t): self.calls.append(t.now); return True
for path in ([4,4,8,16,4,4.],[4,4,8,2,4,4.],[4,4,6,6,4,4.]):
  for nested in (False, True):
    data = pd.DataFrame({'a':path, 'b':[1.0]*6}, index=dts)
    spy = Spy()
    if not nested:
        s = bt.Strategy('s', [spy, bt.algos.RunOnce(), bt.algos.WeighSpecified(a=-2.0, b=3.0), bt.algos.Rebalance()], ['a','b'])
    else:
        ch = bt.Strategy('c', [bt.algos.RunOnce(), bt.algos.WeighSpecified(a=-2.0, b=3.0), bt.algos.Rebalance()], ['a','b'])
        s = bt.Strategy('s', [spy, bt.algos.RunOnce(), bt.algos.WeighSpecified(c=1.0), bt.algos.Rebalance()], [ch])
    t = bt.Backtest(s, data, initial_capital=100., integer_positions=False)
    try:
        t.run()
    except Exception as e:
        print(path, nested, 'EXC', type(e).__name__, str(e)[:120]); continue
    st = t.strategy
    print(path, nested, 'bankrupt', st.bankrupt, 'spycalls', len(t.strategy.stack.algos[0].calls))
    print(pd.DataFrame({'v':st.values,'cash':st.cash,'p':st.prices}).T)
    print(st.positions.T)
