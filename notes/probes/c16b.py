import sys, itertools
sys.path.insert(0,'/tmp/probe')
import numpy as np, pandas as pd
import bt
from bt.core import *
dts = pd.date_range('2020-01-01', periods=3)
bad=0; n=0
for pa, pb, ca, cb, cash, intpos in itertools.product([3.0,7.0,1.1],[0.3,0.7,9.1],[1,3,7,-3],[1,2,-9],[0.0,0.1,5.0],[True,False]):
    data = pd.DataFrame({'a':[pa]*3, 'b':[pb]*3}, index=dts)
    ch = StrategyBase('c', [Security('a'), Security('b')])
    r = StrategyBase('r', [ch])
    r.use_integer_positions(intpos)
    r.setup(data); r.adjust(1000.0); r.update(dts[0])
    r.allocate(500.0, 'c')
    r['c']['a'].transact(ca); r['c']['b'].transact(cb); r.update(dts[0])
    n+=1
    try:
        r.update(dts[1]); r.flatten(); r.update(dts[1])
    except Exception as e:
        print('EXC', pa,pb,ca,cb,cash,intpos, str(e)[:60]); bad+=1; continue
    pos = [r['c'][x].position for x in 'ab']
    if any(p!=0 for p in pos):
        bad+=1
        if bad<15: print(pa,pb,ca,cb,cash,intpos,pos, r['c'].value, r['c'].capital)
print(n,bad)
