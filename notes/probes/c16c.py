import sys, itertools
sys.path.insert(0,'/tmp/probe')
import numpy as np, pandas as pd
import bt
from bt.core import *
dts = pd.date_range('2020-01-01', periods=3)
data = pd.DataFrame({'a':[4.0]*3, 'b':[1.0]*3}, index=dts)
ch = StrategyBase('c', [Security('a'), Security('b')])
r = StrategyBase('r', [ch])
r.setup(data); r.adjust(1000.0); r.update(dts[0])
r.allocate(500.0, 'c')
print('c cap', r['c'].capital, r['c'].value, r.capital)
r['c'].allocate(100, 'a'); r.update(dts[0])
print('c cap', r['c'].capital, r['c'].value, r['c']['a'].position)
r.update(dts[1])
try:
    r.flatten(); r.update(dts[1])
except Exception as e: print(e)
print('c cap', r['c'].capital, r['c'].value, r['c']['a'].position, r.capital, r.value)
