import sys, itertools
sys.path.insert(0,'/tmp/probe')
import numpy as np, pandas as pd
import bt
from bt.core import *
dts = pd.date_range('2020-01-01', periods=3)
pa,pb,ca,cb=3.0,0.3,1,1
data = pd.DataFrame({'a':[pa]*3, 'b':[pb]*3}, index=dts)
ch = StrategyBase('c', [Security('a'), Security('b')])
r = StrategyBase('r', [ch])
r.use_integer_positions(False)
r.setup(data); r.adjust(1000.0); r.update(dts[0])
r.allocate(500.0, 'c')
r['c']['a'].transact(ca); r['c']['b'].transact(cb); r.update(dts[0])
r.update(dts[1])
c=r['c']
print(c.capital, c.value, [(c[x].position, c[x].value, c[x].weight) for x in 'ab'])
r.flatten()
print(c.capital, c._value, [(c[x].position, c[x]._value) for x in 'ab'], r.capital)
try: r.update(dts[1])
except Exception as e: print(e)
