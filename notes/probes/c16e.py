import sys
sys.path.insert(0,'/tmp/probe')
import numpy as np, pandas as pd
pd.set_option('display.width',250); pd.set_option('display.max_columns',30)
import bt
dts = pd.date_range('2020-01-01', periods=6)
path=[4,4,8,16,4,4.]
for nested in (False,True):
    data = pd.DataFrame({'a':path, 'b':[1.0]*6}, index=dts)
    if not nested:
        s = bt.Strategy('s', [bt.algos.RunOnce(), bt.algos.WeighSpecified(a=-2.0, b=3.0), bt.algos.Rebalance()], ['a','b'])
    else:
        ch = bt.Strategy('c', [bt.algos.RunMonthly(), bt.algos.WeighSpecified(a=-2.0, b=3.0), bt.algos.Rebalance()], ['a','b'])
        s = bt.Strategy('s', [bt.algos.RunOnce(), bt.algos.WeighSpecified(c=1.0), bt.algos.Rebalance()], [ch])
    t = bt.Backtest(s, data, initial_capital=100., integer_positions=False, commissions=lambda q,p: abs(q)*p*0.125)
    t.run()
    st = t.strategy
    print(nested, st.bankrupt)
    print(pd.DataFrame({'v':st.values,'cash':st.cash,'p':st.prices, 'fees':st.fees}).T)
    print(st.positions.T)
    if nested:
        c=st['c']; print(pd.DataFrame({'v':c.values,'cash':c.cash,'p':c.prices,'fl':c.flows,'fees':c.fees}).T)
