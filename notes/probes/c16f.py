import sys, itertools, warnings
warnings.simplefilter('ignore')
sys.path.insert(0,'/tmp/probe')
import numpy as np, pandas as pd
pd.set_option('display.width',250); pd.set_option('display.max_columns',30)
import bt
dts = pd.date_range('2020-01-01', periods=5)
n=0;bad=0
for p0,p1,pb,wa,wb,intpos,cap in itertools.product([4.1,3.3,7.0],[9.7,13.1,20.3],[1.0,0.7,2.3],[-2.0,-1.5],[3.0,2.5,1.0],[True,False],[100.,1000.,12345.67]):
    data = pd.DataFrame({'a':[p0,p0,p1,p1,p1], 'b':[pb]*5}, index=dts)
    ch = bt.Strategy('c', [bt.algos.RunMonthly(), bt.algos.WeighSpecified(a=wa, b=wb), bt.algos.Rebalance()], ['a','b'])
    s = bt.Strategy('s', [bt.algos.RunOnce(), bt.algos.WeighSpecified(c=1.0), bt.algos.Rebalance()], [ch])
    t = bt.Backtest(s, data, initial_capital=cap, integer_positions=intpos)
    n+=1
    try: t.run()
    except Exception as e:
        bad+=1; print('EXC',p0,p1,pb,wa,wb,intpos,cap,str(e)[:80]); continue
    st=t.strategy
    if not st.bankrupt: continue
    pos = st.positions.iloc[-1]
    if (pos!=0).any():
        bad+=1
        if bad<12: print(p0,p1,pb,wa,wb,intpos,cap, pos.to_dict(), st.values.iloc[-3:].tolist())
print(n,bad)
