import sys, itertools, warnings, collections
warnings.simplefilter('ignore')
sys.path.insert(0,'/tmp/probe')
import numpy as np, pandas as pd
import bt
from bt import algos as A
from bt.core import SecurityBase, StrategyBase
class Spy(bt.Algo):
    calls=collections.defaultdict(list)
    def __init__(self,tag): super().__init__(); self.tag=tag
    def __call__(self,t):
        if t.root is not t or t.name=='r': Spy.calls[self.tag].append((t.full_name,t.now))
        return True
dts=pd.date_range('2020-01-01',periods=6)
bad=collections.Counter(); ex={}; n=0; nb=0
for path in itertools.product([1.0,2.0,4.0,8.0],repeat=4):
  for lev in ((-2.0,3.0),(-1.0,2.0),(1.0,0.0)):
    for shape in ('flat','nested'):
      for intpos,comm in ((False,None),(True,None),(False,lambda q,p: abs(q)*p*0.125)):
        data=pd.DataFrame({'a':[2.0,2.0]+list(path),'b':[1.0]*6},index=dts)
        Spy.calls.clear()
        if shape=='flat':
            s=bt.Strategy('r',[Spy('r'),A.RunOnce(),A.WeighSpecified(a=lev[0],b=lev[1]),A.Rebalance()],['a','b'])
        else:
            ch=bt.Strategy('c',[Spy('c'),A.RunMonthly(),A.WeighSpecified(a=lev[0],b=lev[1]),A.Rebalance()],['a','b'])
            s=bt.Strategy('r',[Spy('r'),A.RunOnce(),A.WeighSpecified(c=1.0),A.Rebalance()],[ch])
        t=bt.Backtest(s,data,initial_capital=1024.,integer_positions=intpos,commissions=comm)
        try: t.run()
        except ZeroDivisionError: continue   # zero-base guard
        except Exception as e:
            bad['EXC '+str(e)[:40]]+=1; ex.setdefault('EXC '+str(e)[:40],(path,lev,shape,intpos)); continue
        n+=1
        root=t.strategy; secs=[m for m in root.members if isinstance(m,SecurityBase)]
        idx=root.values.index
        # reference value path using positions after first date
        pos={x.full_name:x.positions.iloc[1] for x in secs}
        cash1=sum(m.cash.iloc[1] for m in root.members if isinstance(m,StrategyBase))
        bdate=None
        for i in range(2,len(idx)):
            v=cash1+sum(pos[x.full_name]*x.prices.iloc[i]*x.multiplier for x in secs)
            if v < -1e-9: bdate=i; break
        if (bdate is not None)!=bool(root.bankrupt):
            bad['flag']+=1; ex.setdefault('flag',(path,lev,shape,intpos,bdate,root.bankrupt)); continue
        for m in root.members:
            if m is not root and isinstance(m,StrategyBase) and m.bankrupt: bad['childflag']+=1
        if bdate is None: continue
        nb+=1
        for i in range(bdate,len(idx)):
            for x in secs:
                if abs(x.positions.iloc[i])>1e-9: bad['pos']+=1; ex.setdefault('pos',(path,lev,shape,intpos,i,x.full_name,x.positions.iloc[i]))
            tot_cash=sum(m.cash.iloc[i] for m in root.members if isinstance(m,StrategyBase))
            if abs(root.values.iloc[i]-tot_cash)>1e-9: bad['val!=cash']+=1; ex.setdefault('val!=cash',(path,lev,shape,i,root.values.iloc[i],tot_cash))
            if i>bdate and abs(root.values.iloc[i]-root.values.iloc[bdate])>1e-9: bad['notconst']+=1; ex.setdefault('notconst',(path,lev,shape,i))
        for tag,calls in Spy.calls.items():
            late=[c for c in calls if c[1]>=idx[bdate] and (tag=='r' or True)]
            if tag=='r' and late: bad['spy-root']+=1; ex.setdefault('spy-root',(path,lev,shape,late[:2]))
            if tag=='c' and [c for c in calls if c[1]>=idx[bdate]]: bad['spy-child']+=1; ex.setdefault('spy-child',(path,lev,shape,late[:2]))
print(n,nb)
for k,v in sorted(bad.items(),key=str): print(k,v,ex.get(k))
