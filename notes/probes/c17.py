import sys, itertools, math, collections, time, warnings
warnings.simplefilter('ignore')
sys.path.insert(0,'/tmp/probe')
import numpy as np, pandas as pd
import bt
from bt.core import *
dts = pd.date_range('2020-01-01', periods=4)
data = pd.DataFrame({'f':[100.,101,99,100], 'c':[100.,102,98,100], 'h':[50.,51,49,50], 'e':[4.,2,8,4], 'ch':[10.,11,9,10]}, index=dts)
coupons = pd.DataFrame({'c':[0.5,0.0,0.25,0.5], 'ch':[0.125,0.25,0.0,0.125]}, index=dts)
cl = pd.DataFrame({'c':[0.125]*4, 'ch':[0.0]*4}, index=dts)
cs = pd.DataFrame({'c':[0.25]*4, 'ch':[0.0625]*4}, index=dts)
def build():
    kids=[FixedIncomeSecurity('f'), CouponPayingSecurity('c'), HedgeSecurity('h'), Security('e'), CouponPayingHedgeSecurity('ch')]
    s = FixedIncomeStrategy('s', children=kids)
    s.setup(data, coupons=coupons, cost_long=cl, cost_short=cs)
    s.update(dts[0])
    return s
ops=[('next',)]
for k in ['f','c','h','e','ch']:
    ops += [('tx',k,8.0),('tx',k,-4.0),('close',k)]
ops += [('reb','f',0.5),('reb','c',-0.5),('reb','e',0.25),('flatten',),('adjust',16.0)]
def apply(s,op,st):
    if op[0]=='next':
        if st['i']>=3: return False
        st['i']+=1; s.update(dts[st['i']])
    elif op[0]=='tx': s.transact(op[2], op[1])
    elif op[0]=='close': s.close(op[1])
    elif op[0]=='reb': s.rebalance(op[2], op[1], base=64.0)
    elif op[0]=='flatten': s.flatten()
    elif op[0]=='adjust': s.adjust(op[1])
    return True
def expected_notl(c):
    if isinstance(c,(HedgeSecurity,CouponPayingHedgeSecurity)): return 0.0
    if isinstance(c,FixedIncomeSecurity): return c.position
    return c.position*c.price*c.multiplier
errs=collections.Counter(); ex={}; n=0
t0=time.time()
for depth in (1,2,3):
  for seq in itertools.product(ops, repeat=depth):
    s=build(); st={'i':0}; n+=1
    prev=None
    try:
      for op in seq:
        before = dict(cash=s.capital, val=s.value, price=s.price, notl=s.notional_value, i=st['i'],
                      acc={k:(s[k].position, ) for k in s.children})
        if not apply(s,op,st): break
        v=s.value
        # notional
        for k,c in s.children.items():
            en=expected_notl(c)
            if abs(c.notional_value-en)>1e-9: errs['notl-'+k]+=1; ex.setdefault('notl-'+k,seq)
        en=sum(abs(c.notional_value) for c in s.children.values())
        if abs(s.notional_value-en)>1e-9: errs['snotl']+=1; ex.setdefault('snotl',seq)
        for k,c in s.children.items():
            ew = c.notional_value/en if en>1e-16 else 0.0
            if abs(c.weight-ew)>1e-9: errs['w-'+k]+=1; ex.setdefault('w-'+k,(seq,c.weight,ew))
        if op[0]=='next':
            i=st['i']
            # coupons swept: cash delta
            exp=0.0
            for k in ('c','ch'):
                pos=before['acc'][k][0]
                cp=pos*coupons[k].iloc[i-1]
                hc = pos*cl[k].iloc[i-1] if pos>0 else (-pos*cs[k].iloc[i-1] if pos<0 else 0.0)
                exp+=cp-hc
            if abs((s.capital-before['cash'])-exp)>1e-9: errs['coupon']+=1; ex.setdefault('coupon',(seq,s.capital-before['cash'],exp))
            # additive index
            pnl = s.value-(before['val']+0.0)
            ln = before['notl']
            if abs(ln)>1e-16: ret=pnl/ln*100
            elif abs(s.notional_value)>1e-16: ret=pnl/s.notional_value*100
            else: ret=0.0
            if abs(s.price-(before['price']+ret))>1e-9: errs['index']+=1; ex.setdefault('index',(seq,s.price,before['price']+ret))
    except ZeroDivisionError as e:
        errs['ZDE']+=1; ex.setdefault('ZDE',(seq,str(e)[:100]))
    except Exception as e:
        errs['EXC '+str(e)[:40]]+=1; ex.setdefault('EXC '+str(e)[:40],seq)
print(n, time.time()-t0)
for k,v in errs.items(): print(k,v, ex[k])
