import sys, warnings, itertools, collections
warnings.simplefilter('ignore')
sys.path.insert(0,'/tmp/probe')
import numpy as np, pandas as pd
pd.set_option('display.width',250); pd.set_option('display.max_columns',30)
import bt
from bt import algos as A
from bt.core import *
dts = pd.date_range('2020-01-29', periods=8)
px = pd.DataFrame({'b1':[100,101,99,100,102,101,100,99.],'b2':[50,50.5,51,50,49,50,51,52.],'b3':[98,98,99,100,100,101,101,100.],'h':[10,10.5,10,9.5,10,10.5,11,10.]},index=dts)
cp = pd.DataFrame({'b1':[0.5,0,0.25,0.5,0,0,0.5,0.25],'b2':[0.125]*8,'b3':[0.0,0.25,0,0.25,0,0.25,0,0.25]},index=dts)
cl = pd.DataFrame({'b1':[0.0625]*8,'b2':[0.0]*8,'b3':[0.03125]*8},index=dts)
cs = pd.DataFrame({'b1':[0.125]*8,'b2':[0.0625]*8,'b3':[0.0]*8},index=dts)
bo = pd.DataFrame({'b1':[0.5]*8,'b2':[0.25]*8,'b3':[0.25]*8,'h':[0.125]*8},index=dts)
notl = pd.Series([1000.,1000,2000,2000,500,500,1000,1000],index=dts)
close = pd.DataFrame({'date':[dts[4]]},index=['b2'])
roll = pd.DataFrame({'date':[dts[5]],'target':['b3'],'factor':[0.5]},index=['b1'])
ur = {'dv':pd.DataFrame({'b1':[2.0]*8,'b2':[1.0]*8,'b3':[3.0]*8,'h':[4.0]*8},index=dts)}
def mk(hmult=1.0):
    kids=[CouponPayingSecurity('b1'),CouponPayingSecurity('b2'),CouponPayingSecurity('b3'),HedgeSecurity('h',multiplier=hmult)]
    st=[A.ClosePositionsAfterDates('close'),A.RollPositionsAfterDates('roll'),
        A.RunDaily(),A.SelectThese(['b1','b2','b3']),A.SelectActive(),A.WeighEqually(),A.SetNotional('notl'),A.Rebalance(),
        A.UpdateRisk('dv',history=1),A.SelectThese(['h']),A.HedgeRisks(['dv']),A.UpdateRisk('dv',history=1)]
    return FixedIncomeStrategy('fi',algos=st,children=kids)
for intpos,comm,useb in itertools.product((True,False),(None,lambda q,p:abs(q)*0.01),(False,True)):
    ad=dict(coupons=cp,cost_long=cl,cost_short=cs,notl=notl,close=close,roll=roll,unit_risk=ur)
    if useb: ad['bidoffer']=bo
    t=bt.Backtest(mk(),px,integer_positions=intpos,commissions=comm,additional_data=ad,initial_capital=0.)
    try: t.run()
    except Exception as e:
        import traceback; traceback.print_exc(); print(intpos,comm is not None,useb,'EXC',type(e).__name__,str(e)[:100]); continue
    s=t.strategy; idx=s.values.index
    secs=[m for m in s.members if isinstance(m,SecurityBase)]
    worst=0
    for i in range(1,len(idx)):
        pnl=sum(x.positions.iloc[i-1]*(x.prices.iloc[i]-x.prices.iloc[i-1])*x.multiplier for x in secs if x.positions.iloc[i-1]!=0)
        carry=sum(x.coupons.iloc[i-1]-x.holding_costs.iloc[i-1] for x in secs if isinstance(x,CouponPayingSecurity))
        exp=pnl+carry+s.flows.iloc[i]-s.fees.iloc[i]-(s.bidoffers_paid.iloc[i] if useb else 0)
        worst=max(worst,abs((s.values.iloc[i]-s.values.iloc[i-1])-exp))
        # index
        N=s.notional_values.iloc[i-1]; pnl2=s.values.iloc[i]-s.values.iloc[i-1]-s.flows.iloc[i]
        ret = pnl2/N*100 if abs(N)>1e-16 else (pnl2/s.notional_values.iloc[i]*100 if abs(s.notional_values.iloc[i])>1e-16 else 0)
        worst=max(worst,abs(s.prices.iloc[i]-s.prices.iloc[i-1]-ret))
        # notional targets after rebalance
    print(intpos,comm is not None,useb,'worst',worst,'risk',s.risk, 'pos', {x.name:x.position for x in secs})
    print(pd.DataFrame({x.name:x.positions for x in secs}).T if (intpos and comm is None and not useb) else '')
    print(s.notional_values.values if (intpos and comm is None and not useb) else '')
