import sys, warnings
sys.path.insert(0,'/tmp/probe')
import numpy as np, pandas as pd
import bt, traceback
warnings.simplefilter('error')
dts = pd.date_range('2020-01-01', periods=6)
data = pd.DataFrame({'a':[4.0, 2.0, 8.0, 4,4,2], 'b':[1.0, 2.0, 0.5,1,2,1]}, index=dts)
def rep(t, label):
    print('==',label)
    for name in ['weights','positions','security_weights','herfindahl_index','turnover']:
        try:
            x = getattr(t,name); print(name,'ok', getattr(x,'shape',None))
        except Exception as e:
            print(name,'EXC',type(e).__name__, str(e)[:100])
    try:
        r = bt.backtest.Result(t)
        tx = r.get_transactions(); print('tx ok', tx.shape); print(tx)
    except Exception as e:
        print('tx EXC', type(e).__name__, str(e)[:200]); traceback.print_exc()
    try:
        print(r.stats.shape)
        r.display()
    except Exception as e:
        print('display EXC', type(e).__name__, str(e)[:200])

s = bt.Strategy('s', [bt.algos.RunOnce(), bt.algos.SelectAll(), bt.algos.WeighEqually(), bt.algos.Rebalance()])
t = bt.Backtest(s, data, initial_capital=100.0, progress_bar=False); t.run(); rep(t,'buyhold')
print(t.strategy.prices)
s = bt.Strategy('none', [bt.algos.RunOnce()])
t = bt.Backtest(s, data, initial_capital=100.0); t.run(); rep(t,'notrades')
s = bt.Strategy('none2', [bt.algos.RunOnce()], children=['a','b'])
t = bt.Backtest(s, data, initial_capital=100.0); t.run(); rep(t,'notrades-children')
