import sys, warnings
warnings.simplefilter('ignore')
sys.path.insert(0,'/tmp/probe')
import numpy as np, pandas as pd
pd.set_option('display.width',250); pd.set_option('display.max_columns',30)
import bt
dts = pd.date_range('2020-01-01', periods=5)
data = pd.DataFrame({'a':[4.0, 2.0, 8.0, 4,4], 'b':[1.0, 2.0, 0.5,1,2]}, index=dts)
bo = pd.DataFrame({'a':[0.5]*5, 'b':[0.25]*5}, index=dts)
def mk(mult, nested):
    kids = [bt.Security('a', multiplier=mult), bt.Security('b')]
    if nested:
        c1 = bt.Strategy('c1', [bt.algos.RunDaily(), bt.algos.SelectAll(), bt.algos.WeighEqually(), bt.algos.Rebalance()], [bt.Security('a', multiplier=mult), bt.Security('b')])
        c2 = bt.Strategy('c2', [bt.algos.RunDaily(), bt.algos.SelectThese(['a']), bt.algos.WeighEqually(), bt.algos.Rebalance()], [bt.Security('a', multiplier=mult)])
        return bt.Strategy('s', [bt.algos.RunDaily(), bt.algos.WeighSpecified(c1=0.5,c2=0.25), bt.algos.Rebalance()], [c1,c2])
    return bt.Strategy('s', [bt.algos.RunDaily(), bt.algos.SelectAll(), bt.algos.WeighSpecified(a=0.5,b=-0.25), bt.algos.Rebalance()], kids)
for mult in (1,2):
  for nested in (False,True):
    s = mk(mult,nested)
    t = bt.Backtest(s, data, initial_capital=1000., integer_positions=False, additional_data={'bidoffer':bo}); t.run()
    tx = t.strategy.get_transactions()
    print('mult',mult,'nested',nested); print(tx.head(6))
    # security weights + cash fractions sum to one
    sw = t.security_weights.sum(axis=1)
    cashfrac = sum(m.cash for m in t.strategy.members if isinstance(m, bt.core.StrategyBase)) / t.strategy.values
    print('sum', (sw+cashfrac).round(12).tolist())
    if not nested:
        # replay
        kids = [bt.Security('a', multiplier=mult), bt.Security('b')]
        rs = bt.Strategy('r', [bt.algos.ReplayTransactions('tx')], kids)
        rt = bt.Backtest(rs, data, initial_capital=1000., integer_positions=False, additional_data={'bidoffer':bo, 'tx':tx}); rt.run()
        print('replay values equal', np.allclose(rt.strategy.values, t.strategy.values), 'positions equal', np.allclose(rt.positions, t.positions))
        print(pd.DataFrame({'orig':t.strategy.values,'replay':rt.strategy.values}).T)
