import sys, warnings, itertools, collections
warnings.simplefilter('ignore')
sys.path.insert(0,'/tmp/probe')
import numpy as np, pandas as pd
import bt
from bt import algos as A
from bt.core import SecurityBase, StrategyBase
dts = pd.date_range('2020-01-29', periods=6)
data = pd.DataFrame({'a':[4.0, 2.0, 8.0, 4,4,2], 'b':[1.0, 2.0, 0.5,1,2,1], 'c':[2.0,2.0,4.0,1.0,2,4]}, index=dts)
bo = pd.DataFrame({'a':[0.5]*6,'b':[0.25]*6,'c':[0.125]*6}, index=dts)
def trees():
    yield 'flat', lambda: bt.Strategy('s',[A.RunDaily(),A.WeighSpecified(a=0.5,b=-0.25,c=0.25),A.Rebalance()])
    yield 'flat-eager-notrade', lambda: bt.Strategy('s',[A.RunOnce()],[bt.Security('a')])
    def nested():
        c1=bt.Strategy('c1',[A.RunDaily(),A.SelectAll(),A.WeighEqually(),A.Rebalance()],['a','b'])
        c2=bt.Strategy('c2',[A.RunWeekly(),A.WeighSpecified(a=-0.5),A.Rebalance()],['a'])
        return bt.Strategy('s',[A.RunDaily(),A.WeighSpecified(c1=0.5,c2=0.25,c=0.125),A.Rebalance()],[c1,c2,'c'])
    yield 'nested', nested
bad=collections.Counter(); ex={}
for (tn,mk),intpos,useb in itertools.product(trees(),(True,False),(False,True)):
    t=bt.Backtest(mk(),data,initial_capital=4096.,integer_positions=intpos,additional_data={'bidoffer':bo} if useb else None); t.run()
    root=t.strategy; idx=root.values.index
    strats=[m for m in root.members if isinstance(m,StrategyBase)]; secs=[m for m in root.members if isinstance(m,SecurityBase)]
    V=root.values
    def chk(name,got,exp):
        got=np.asarray(got,dtype=float); exp=np.asarray(exp,dtype=float)
        if got.shape!=exp.shape or not np.allclose(got,exp,rtol=1e-9,atol=1e-9,equal_nan=True):
            bad[name]+=1; ex.setdefault(name,(tn,intpos,useb,got[:3],exp[:3]))
    # weights
    w=t.weights
    for m in root.members: chk('weights',w[m.full_name].values,(m.values/V).values)
    # security weights
    sw=t.security_weights
    for name in set(x.name for x in secs):
        chk('secw',sw[name].values,sum(x.values for x in secs if x.name==name).values/V.values)
    if secs:
        tot=sw.sum(axis=1).values+sum(s.cash for s in strats).values/V.values
        chk('sum1',tot,np.ones(len(idx)))
        pos=t.positions
        for name in set(x.name for x in secs): chk('pos',pos[name].values,sum(x.positions for x in secs if x.name==name).values)
        chk('hhi',t.herfindahl_index.values,(sw**2).sum(axis=1).values)
        out=pd.DataFrame({n:sum(x.outlays for x in secs if x.name==n) for n in set(x.name for x in secs)})
        to=np.minimum(out.clip(lower=0).sum(axis=1),out.clip(upper=0).sum(axis=1).abs())/V
        chk('turnover',t.turnover.values,to.values)
        tx=root.get_transactions()
        for name in set(x.name for x in secs):
            q=tx['quantity'].xs(name,level='Security') if name in tx.index.get_level_values('Security') else pd.Series(dtype=float)
            cum=q.reindex(idx).fillna(0).cumsum()
            chk('txcum',cum.values,sum(x.positions for x in secs if x.name==name).values)
            if useb and len(q):
                pr=tx['price'].xs(name,level='Security')
                mid=[x for x in secs if x.name==name][0].prices
                paid=sum(x.bidoffers_paid/x.multiplier for x in secs if x.name==name)
                chk('txprice',pr.values,(mid+paid/q.reindex(idx)).reindex(pr.index).values)
    res=bt.backtest.Result(t)
    chk('resultprices',res.prices[t.name].values,root.prices.values)
print('done')
for k,v in bad.items(): print(k,v,ex[k])
