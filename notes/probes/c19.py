import sys, warnings, itertools, random
warnings.simplefilter('ignore')
sys.path.insert(0,'/tmp/probe')
import numpy as np, pandas as pd
import bt
from bt import algos as A
dts = pd.date_range('2020-01-29', periods=7)
exact = pd.DataFrame({'a':[4.0, 2.0, 8.0, 4,4,2,1], 'b':[1.0, 2.0, 0.5,1,2,1,4], 'c':[2.0,2.0,4.0,1.0,2,4,8]}, index=dts)
rng=np.random.RandomState(2)
dec = pd.DataFrame(np.round(50*np.exp(np.cumsum(rng.normal(0,0.05,size=(7,3)),axis=0)),2), index=dts, columns=list('abc'))
stacks = {
 'eq': lambda: [A.RunDaily(), A.SelectAll(), A.WeighEqually(), A.Rebalance()],
 'spec': lambda: [A.RunDaily(), A.WeighSpecified(c=0.5,a=0.25), A.Rebalance()],
 'mom': lambda: [A.RunDaily(), A.SelectAll(), A.SelectMomentum(1, lookback=pd.DateOffset(days=2)), A.WeighEqually(), A.Rebalance()],
 'rand': lambda: [A.RunDaily(), A.SelectAll(), A.SelectRandomly(2), A.WeighEqually(), A.Rebalance()],
 'rot': lambda: [A.RunWeekly(), A.SelectAll(), A.WeighEqually(), A.RebalanceOverTime(3)],
}
def hist(t):
    st=t.strategy
    return {'prices':st.prices.values,'values':st.values.values,'cash':st.cash.values,'fees':st.fees.values,'pos':t.positions.reindex(columns=list('abc')).fillna(0).values}
for dname,data in (('exact',exact),('dec',dec)):
  for name,mk in stacks.items():
    for intpos,comm in itertools.product((True,False),(None,lambda q,p: abs(q)*p*0.125)):
        res={}
        for variant in ('none','lazy','eager','eager_rev'):
            random.seed(3)
            kids={'none':None,'lazy':['a','b','c'],'eager':[bt.Security(x) for x in 'abc'],'eager_rev':[bt.Security(x) for x in 'cba']}[variant]
            t=bt.Backtest(bt.Strategy('s',mk(),kids),data,initial_capital=4096.,integer_positions=intpos,commissions=comm)
            try: t.run(); res[variant]=hist(t)
            except Exception as e: res[variant]=('EXC',str(e)[:60])
        base=res['lazy']
        for v in ('none','eager','eager_rev'):
            if isinstance(base,tuple) or isinstance(res[v],tuple):
                if base!=res[v]: print(dname,name,intpos,comm is not None,v,'EXC-DIFF',base if isinstance(base,tuple) else 'ok',res[v] if isinstance(res[v],tuple) else 'ok')
                continue
            exactly=all(np.array_equal(base[k],res[v][k]) for k in base)
            close=all(np.allclose(base[k],res[v][k],rtol=1e-9,atol=1e-9) for k in base)
            if not exactly: print(dname,name,intpos,comm is not None,v,'bitdiff','close' if close else 'DIFF')
print('done')
