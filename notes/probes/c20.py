import sys, itertools, collections, math, warnings, random
warnings.simplefilter('ignore')
sys.path.insert(0,'/tmp/probe')
import numpy as np, pandas as pd
import bt
from bt import algos as A
from bt.core import *
dts=pd.date_range('2020-01-01',periods=3)
data=pd.DataFrame({'a':[1.0,2.0,4.0],'b':[2.0,2.0,1.0],'c':[4.0,4.0,8.0]},index=dts)
r1=pd.DataFrame({'a':[1.0,2.0,1.0],'b':[0.5,0.5,0.25]},index=dts)   # c missing -> zero
r2=pd.DataFrame({'a':[0.0,1.0,1.0],'c':[2.0,2.0,4.0]},index=dts)
bad=collections.Counter(); ex={}; n=0
for ma,mc in itertools.product((1.0,2.0),repeat=2):
  for pos in itertools.product((0.0,4.0,-2.0),repeat=4):
    for hist in (0,1,2):
        s1=bt.Strategy('s1',[],[Security('a',multiplier=ma),Security('b')])
        root=bt.Strategy('r',[A.UpdateRisk('R1',history=hist),A.UpdateRisk('R2',history=hist)],[s1,Security('a',multiplier=ma),Security('c',multiplier=mc)])
        root.setup(data, unit_risk={'R1':r1,'R2':r2}); root.adjust(1000.0); root.update(dts[0])
        root.allocate(500.0,'s1')
        secs=[root['s1']['a'],root['s1']['b'],root['a'],root['c']]
        for sec,p in zip(secs,pos): sec.transact(p)
        root.update(dts[0]); root.run()
        for i in (1,2):
            root.update(dts[i]); root.run()
            for m,rf in (('R1',r1),('R2',r2)):
                def ur(name): return rf[name].iloc[i] if name in rf.columns else 0.0
                e_sec=[ur(x.name)*x.position*x.multiplier for x in secs]
                e_s1=e_sec[0]+e_sec[1]; e_root=e_s1+e_sec[2]+e_sec[3]
                n+=1
                got=[x.risk[m] for x in secs]+[root['s1'].risk[m],root.risk[m]]
                if any(abs(g-e)>1e-12 for g,e in zip(got,e_sec+[e_s1,e_root])): bad['risk']+=1; ex.setdefault('risk',(ma,mc,pos,hist,i,m,got,e_sec))
                if hist>=1:
                    if abs(root.risks[m].loc[dts[i]]-e_root)>1e-12: bad['hist0']+=1
                    if hasattr(root['s1'],'risks') != (hist>=2): bad['histdepth']+=1; ex.setdefault('histdepth',(hist,hasattr(root['s1'],'risks')))
print(n)
for k,v in bad.items(): print(k,v,ex.get(k))
# Hedge
for mh in (1.0,2.0):
    s=bt.Strategy('s',[A.UpdateRisk('R1'),A.UpdateRisk('R2'),A.SelectThese(['b','c']),A.HedgeRisks(['R1','R2']),A.UpdateRisk('R1'),A.UpdateRisk('R2')],[Security('a'),Security('b',multiplier=mh),Security('c')])
    s.setup(data, unit_risk={'R1':r1,'R2':r2}); s.adjust(1000.0); s.update(dts[0]); s.transact(100,'a'); s.update(dts[1]); s.run()
    print('hedge mult',mh, s.risk)
