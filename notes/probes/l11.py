import sys, os; sys.path.insert(0, os.environ.get('BUILD','/tmp/probe'))
import pandas as pd, bt
from bt.core import *
dts=pd.date_range('2020-01-01',periods=2)
s=StrategyBase('s',[Security('a')]); s.setup(pd.DataFrame({'a':[2.0,2.0]},index=dts)); s.adjust(100.); s.update(dts[0])
c=s['a']; cap0=s.capital
c.transact(5); c.transact(-2)      # two trades, no read in between
s.update(dts[0])
print('recorded outlay',c.outlays.iloc[0],'cash spent',cap0-s.capital)
