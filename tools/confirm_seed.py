#!/venv/bin/python
"""Confirm a sub-agent's seeded defect in its scratch worktree and file it under /verif/seeded/.

    tools/confirm_seed.py c02 m1 [CHECK ...]

Verifies: demo passes on the clean worktree; with the patch applied the whole test suite passes
and the demo fails.  Then runs the named checks against the patched sources (BTMC_SRC) and
records which of them report a violation."""
import json
import os
import shutil
import subprocess
import sys

PY = "/venv/bin/python"


def sh(cmd, cwd, env=None):
    r = subprocess.run(cmd, cwd=cwd, shell=True, capture_output=True, text=True, env=env)
    return r.returncode, (r.stdout + r.stderr)


def main():
    prop, m = sys.argv[1], sys.argv[2]
    checks = sys.argv[3:]
    base = os.environ.get("WT", "/tmp/wt")
    wt = "%s/%s" % (base, prop)
    src = "%s/out/%s/%s" % (base, prop, m)
    sid = "%s-%s%s" % (prop.upper(), os.environ.get("WTAG", ""), m)
    meta = {"id": sid, "property": prop.upper(), "ran": []}
    sh("git checkout -q -- . && git clean -fdq && git checkout -q --detach main", wt)
    meta["repo_commit"] = sh("git rev-parse --short HEAD", wt)[1].strip()
    env = dict(os.environ, PYTHONPATH=wt)
    rc0, out0 = sh("%s %s/demo.py" % (PY, src), wt, env)
    meta["ran"].append({"cmd": "demo.py on clean worktree", "exit": rc0})
    rc, out = sh("git apply %s/patch.diff" % src, wt)
    if rc != 0:
        rc, out = sh("git apply --3way %s/patch.diff" % src, wt)
    if rc != 0:
        print(json.dumps({"id": sid, "confirmed": False, "reason": "patch no longer applies to the repaired tree: " + out[-200:]}))
        sh("git checkout -q -- . && git clean -fdq", wt)
        return
    rct, outt = sh("%s -m pytest -q -p no:cacheprovider -x tests 2>&1 | tail -3" % PY, wt)
    meta["ran"].append({"cmd": "pytest tests (157) with patch", "exit": rct, "tail": outt.strip().splitlines()[-1:]})
    rc1, out1 = sh("%s %s/demo.py" % (PY, src), wt, env)
    meta["ran"].append({"cmd": "demo.py with patch", "exit": rc1, "tail": out1.strip().splitlines()[-2:]})
    ok = rc0 == 0 and rc1 != 0 and "passed" in outt and "failed" not in outt
    meta["confirmed"] = bool(ok)
    caught = {}
    for c in checks:
        r = subprocess.run([PY, "-m", "btmc.check", c, "--tier", "quick"], cwd="/verif", env=dict(os.environ, BTMC_SRC=wt), capture_output=True, text=True)
        summ = [ln for ln in r.stdout.splitlines() if "violation(s)" in ln]
        caught[c] = {"exit": r.returncode, "summary": summ[-1:] }
    meta["checks_quick"] = caught
    sh("git checkout -q -- . && git clean -fdq", wt)
    notes = open(os.path.join(src, "notes.txt")).read() if os.path.exists(os.path.join(src, "notes.txt")) else ""
    meta["needs"] = notes.strip()[:1500]
    print(json.dumps({k: meta[k] for k in ("id", "confirmed", "checks_quick")}, indent=1))
    print([x for x in meta["ran"]])
    if ok:
        dst = "/verif/seeded/%s" % sid
        os.makedirs(dst, exist_ok=True)
        # the patch as it applies to the current tree
        rc, out = sh("git apply %s/patch.diff || git apply --3way %s/patch.diff" % (src, src), wt)
        rc, out = sh("git diff", wt)
        with open(os.path.join(dst, "patch.diff"), "w") as f:
            f.write(out)
        sh("git checkout -q -- . && git clean -fdq", wt)
        shutil.copy(os.path.join(src, "demo.py"), dst)
        with open(os.path.join(dst, "meta.json"), "w") as f:
            json.dump(meta, f, indent=1)


if __name__ == "__main__":
    main()
