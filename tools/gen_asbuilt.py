#!/venv/bin/python
"""Write notes/asbuilt.md: what each quick check covered on its last run (from evidence/*.json)."""
import glob, json, os
ROOT = os.path.dirname(os.path.dirname(os.path.abspath(__file__)))
rows = []
for f in sorted(glob.glob(os.path.join(ROOT, "evidence", "C*.json"))):
    e = json.load(open(f))
    c = e["coverage"]
    rows.append("| %s | %s | %d | %d | %d | %d | %d | %s | %.0f s |" % (e["property_id"], e["tier"], c.get("states", 0), c.get("transitions", 0), c.get("traces_validated_against_impl", 0), c.get("distinct_nontrivial", 0), c.get("refused", 0), ",".join(c.get("builds", [])), e["wall_s"]))
out = ["| id | tier | states | transitions | traces on the real code | distinct non-trivial | refused | builds | wall |", "|----|------|--------|-------------|-------------------------|----------------------|---------|--------|------|"] + rows
open(os.path.join(ROOT, "notes", "asbuilt.md"), "w").write("\n".join(out) + "\n")
print("\n".join(out))
