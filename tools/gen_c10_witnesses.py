#!/venv/bin/python
"""Authoring-time only: list the allocate requests on which runs of the family die in a
sizing guard on the CURRENT tree -> known/C10-sizing.txt (never written at check time)."""
import os, sys, subprocess, json, glob
sigs=set()
for tier, seeds in (("quick", range(10)), ("thorough", [0])):
    for seed in seeds:
        r = subprocess.run(["/venv/bin/python", "-m", "btmc.check", "C10", "--tier", tier, "--seed", str(seed)], cwd="/verif", capture_output=True, text=True, env=dict(os.environ, BTMC_DUMP_SIGS="/tmp/c10sigs.txt"))
        print(tier, seed, r.stdout.strip().splitlines()[-1])
        if os.path.exists("/tmp/c10sigs.txt"):
            sigs |= set(l.strip() for l in open("/tmp/c10sigs.txt") if l.startswith("sizing-guard|"))
            os.remove("/tmp/c10sigs.txt")
os.makedirs("/verif/known", exist_ok=True)
open("/verif/known/C10-sizing.txt","w").write("\n".join(sorted(sigs))+"\n")
print(len(sigs))
