#!/venv/bin/python
"""Regenerates /verif/MANIFEST.json from the table below (keeps it valid at all times)."""
import json
import os

ROOT = os.path.dirname(os.path.dirname(os.path.abspath(__file__)))

# id -> (technique, level text, level note, design ref)
CLAIMED = {
    "C01": (
        "explicit-state BFS over the real tree API (op sequences, state-hash dedup), py+cy builds",
        "Every state of the bounded tree/alphabet/depth space reachable through the real bt objects is visited once and the balance-sheet identities and the end-of-date rows are checked on it; exhaustive within the stated bounds, on the interpreted and the compiled build.",
        "Bounds: 3 tree shapes, 22-op alphabet, depth 3 (quick) / 4-5 (thorough), 4 dates, dyadic and decimal price tables; trusted: CPython, pandas/numpy, the ~40-line identity oracle in btmc/ref.py.",
        "DESIGN.md 5 C01",
    ),
}

PENDING = "check not built yet in this session (work in progress, see DESIGN.md section 5)"


def main():
    props = [json.loads(l) for l in open(os.path.join(ROOT, "properties.jsonl"))]
    checks = []
    na = []
    for p in props:
        pid = p["id"]
        if pid in CLAIMED:
            tech, text, note, ref = CLAIMED[pid]
            checks.append(
                {
                    "property_id": pid,
                    "quick_cmd": "/venv/bin/python -m btmc.check %s --tier quick" % pid,
                    "thorough_cmd": "/venv/bin/python -m btmc.check %s --tier thorough" % pid,
                    "evidence_file": "/verif/evidence/%s.json" % pid,
                    "replay_cmd_template": "/venv/bin/python -m btmc.replay {path}",
                    "engine": "btmc",
                    "level_claimed": {"category": "model_checking", "text": text, "design_ref": ref},
                    "level_note": note,
                    "technique": tech,
                }
            )
        else:
            na.append({"property_id": pid, "reason": PENDING})
    m = {
        "version": 1,
        "setup_cmd": "/venv/bin/python -m btmc.selftest",
        "hooks": {
            "guard": "BT_VERIF",
            "enable": "no hooks in /repo are needed: every seam is public API or Python-level spying; checks copy bt/*.py from /repo's working tree into a scratch dir (interpreted) and cythonize core.py there (compiled)",
            "baseline_off_cmd": "cd /repo && /venv/bin/python -m pytest -ra -q -p no:cacheprovider --timeout=900 --continue-on-collection-errors",
            "source_commits": [],
            "add_only": True,
        },
        "engines": [
            {
                "name": "btmc",
                "path": "/verif/btmc",
                "serves_properties": sorted(CLAIMED),
                "kind_free_text": "hand-written explicit-state / bounded-exhaustive explorer driving the real bt implementation (BFS with state hashing, Cartesian products, deviation placement, interleavings) with pure-Python reference oracles",
            }
        ],
        "checks": checks,
        "not_applicable": na,
        "notes": "All checks: cwd=/verif, run with /venv/bin/python, rebuild bt from /repo's current working tree into a scratch directory on every invocation (BTMC_SRC overrides the source root for mutation testing). Known findings: /verif/known_findings.json.",
    }
    with open(os.path.join(ROOT, "MANIFEST.json"), "w") as f:
        json.dump(m, f, indent=1)
    print("claimed", len(checks), "not_applicable", len(na))


if __name__ == "__main__":
    main()
