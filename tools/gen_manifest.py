#!/venv/bin/python
"""Regenerates /verif/MANIFEST.json from the table below (keeps it valid at all times)."""
import json
import os

ROOT = os.path.dirname(os.path.dirname(os.path.abspath(__file__)))

# id -> (technique, level text, level note, design ref)
BFS = "explicit-state BFS over the real tree API (op sequences, SHA-1 state dedup)"
CLAIMED = {
    "C01": (BFS + ", py+cy builds", "Every state of the bounded tree/alphabet/depth space reachable through the real bt objects is visited once and the balance-sheet identities and end-of-date rows are checked on it; exhaustive within the stated bounds, on the interpreted and the compiled build.", "Bounds: trees T1/T2/T3, 22-op alphabet, depth 3 (quick) / 4-5 (thorough), 4 dates, dyadic, decimal and zero-touching price tables; trusted: CPython, pandas/numpy, the identity oracle in btmc/ref.py.", "DESIGN.md 5 C01"),
    "C02": (BFS + " with a per-op P&L oracle + exhaustive run family", "Every transition of the bounded op space and every date of every run of the bounded run family is reconciled against a P&L attribution recomputed from executed trades (spy on transact), the driver's own prices, spreads and fee functions.", "Bounds as C01 with the cost alphabet (5 fee families, spreads, custom prices, non-flow adjusts), FI tree F1; run family = menus of all stock algos; trusted: btmc/ledger.py arithmetic.", "DESIGN.md 5 C02"),
    "C03": (BFS + " with the index recurrence after every op; exhaustive run family; scaled-run triples", "The index recurrence is evaluated against the driver's own tally of flows after every single operation of the bounded space and on every date of every run; capital-scale invariance is decided on enumerated triples of runs.", "Reading: the recurrence is the precise half of the statement (DESIGN 5 C03 note). Bounds: flow-heavy alphabet depth 3/4; capital x{1/1000,1,64}.", "DESIGN.md 5 C03"),
    "C04": ("exhaustive product: run-family strategies x cut dates x perturbations of every supplied table after the cut, plus transaction / RFQ tables (row orders x stamp kinds) at every cut incl. the last bar; bit-for-bit comparison of truncated histories", "For every strategy of the bounded family, every cut date (all dates for table-driven strategies, 3 spread cuts otherwise; thorough: all) and every perturbation kind, the perturbed run's recorded histories, transactions and weights up to the cut are compared bit-for-bit with the base run's.", "Perturbations: affine rescale, reversal of future rows, column rotation (thorough: every single future cell of the 6-date tables) on prices, stat/signal/target tables, bid/offer, coupons, carry, notional, unit risk.", "DESIGN.md 5 C04"),
    "C05": ("exhaustive Cartesian grid (price x multiplier x position x amount x spread x fee incl. a direction-dependent one x mode x build) and root mode x sub-strategy mode x lazy/declared security, vs brute-force reference", "Every point of the finite grid is executed on the real allocate path (both builds) and compared with the largest affordable quantity found by bisection on the monotone cost; known sizing defects are pinned point-by-point with their exact wrong outcome so any other deviation is reported.", "Grid: 130k points quick / ~2M thorough per build; fee families none/flat/proportional/per-share/max(flat,per-share); points outside the property's fee domain are not judged.", "DESIGN.md 5 C05"),
    "C06": ("exhaustive sequences (depth 2/3) of (price move | same-bar flow, target vector, cash fraction) on flat and nested trees; RebalanceOverTime schedules", "Every sequence of the bounded step alphabet is executed on the real Rebalance algo so that every rebalance but the first starts from a non-trivial prior portfolio; each targeted child's value is compared with (1-c)*w*base within its own trade costs (+ one unit with integer positions), non-targets must be closed, sub-strategy targets must spread capital by child weight.", "Bounds: 8/7 target vectors x 4 cash fractions x 4 moves, depth 2 (quick) / 3; cost models none/proportional/flat+spread/per-share+spread; sequences ending in bankruptcy or a documented guard are skipped.", "DESIGN.md 5 C06"),
    "C07": (BFS + " with a per-node cash ledger oracle + exhaustive run family", "Per executed trade and per node/date the cash ledger is rebuilt from the spy's trade log and the driver's own fee function and compared with capital, fees, flows and outlays on every transition / date.", "Bounds as C02 incl. 3-level tree T3 with fees; trusted: btmc/ledger.py.", "DESIGN.md 5 C07"),
    "C08": ("deviation-bounded placement: every history x every position x {0,1,2,3 redundant updates}; every prefix x every (node, public property) as first read", "All placements of redundant updates and of a first read of any public property inside all op histories up to the bound are executed; snapshots, raw state keys, frozen past rows and series ends are compared exactly.", "Bounds: reduced 11-14 op alphabet, prefixes <= 2 (quick) / 3, histories <= 3 / 4, trees T1,T2,T3,F1(,F2).", "DESIGN.md 5 C08"),
    "C09": ("exhaustive product: calendar-gated child definitions (incl. ranking ties x declared ticker order) x parent allocation schedules (market-value and notional-weighted parents) x modes x capital; pairwise comparison nested vs stand-alone run", "Every (child definition, parent schedule, configuration) of the bounded family is run nested and stand-alone; the child's price series and the parent's universe column must equal the stand-alone index on every date (1e-12).", "Children are deterministic and start with a calendar scheduler (the property's quantifier); schedules: never funded, once, daily re-weighting incl. zero, de-fund/re-fund, levered, shorted, parent going bankrupt, child going bankrupt.", "DESIGN.md 5 C09"),
    "C10": ("exhaustive run family on both builds + enumerated ill-formed situations", "Every backtest of the bounded family (menus containing every stock algo) must complete with finite series and working reports on py and cy; every situation of each ill-formed class must raise and leave earlier rows untouched.", "Family well-formedness conditions in DESIGN 4; the known sizing-guard failures are pinned by their exact allocate request (known/C10-sizing.txt).", "DESIGN.md 5 C10"),
    "C11": ("all interleavings (linear extensions) of construct/run events of 2-3 backtests from one template; subprocess runs under hash seeds and with / without earlier backtests in the interpreter", "All 6 (k=2) and 90 (k=3) event orders are executed for every template; each backtest must equal the same backtest built from a fresh template and run alone, the template's raw state and all input frames must be unchanged after every event, results must agree across PYTHONHASHSEED values, and a finished backtest must not re-run.", "Templates with stateful, in-place-mutating, perm-using and seeded random algos; RNG seeded per run event.", "DESIGN.md 5 C11"),
    "C12": ("exhaustive product: every subset of 8-timestamp windows x 5 schedulers x 8 flag settings x every date, x call-skipping deviations; counters over all parameters; real backtests (flat, under running / halting parents, Or combinations, empty first rows, benchmark_random)", "All indices that can be formed from hand-picked boundary windows (ISO week 53/1, New Year, leap day, quarter end, intraday, sparse) are enumerated and each scheduler's answer on each date is compared with plain datetime arithmetic, also when the scheduler is not evaluated on every date.", "First/last date are governed by their flags (pinned test_run_period).", "DESIGN.md 5 C12"),
    "C13": ("exhaustive enumeration of stacks (length <= 4/5, nested one level, Or, Not) against a reference interpreter; truth tables; Strategy.run call logs (temp written between runs / by a parent); every stack also handed to a Strategy", "Every stack shape of the bounded family is executed on the real AlgoStack/Or/Not and its call log and result compared with a 12-line interpreter; Require and RunIfOutOfBounds tables and the temp/perm/run-order contract of Strategy.run are enumerated.", "run_always applies to direct members of a stack.", "DESIGN.md 5 C13"),
    "C14": ("exhaustive product: universes from a cell alphabet x parameters x prior temp, pipelines of <= 3 selection algos, named tables through real backtests, vs set-builder reference", "Every selection algo is executed on a real Strategy for every universe/parameter combination of the bounded family and compared with plain-Python set-builder definitions (ranked selection relationally).", "include_no_data=True with include_negative=False is undefined by the docs and not judged.", "DESIGN.md 5 C14"),
    "C15": ("exhaustive product: selections x return tables x windows x lags x limits/bounds/targets x live portfolios, named target tables through real backtests, vs numpy formulas", "Every weighting algo is executed on a real Strategy over the bounded family and compared with formulas/relations recomputed with numpy only.", "Degenerate windows excluded; ffn's optimisers checked through relations on their output.", "DESIGN.md 5 C15"),
    "C16": ("exhaustive product: price paths alphabet^n x leverage x tree x schedule x mode (incl. transact-booked fractional quantities, zero quotes), vs reference value path", "All price paths of the bounded alphabet are run through real backtests; flag date, liquidation of the whole tree, terminality and the spy algo's call log are compared with a reference value path rebuilt from recorded rows and input prices; a re-used bankrupt strategy object must start unflagged.", "Bounds: 4^4 paths (quick) / 6^5, 3-4 leverages, flat / nested / levered parent / 3 levels / coupon-paying, integer and fractional, decimal scaling.", "DESIGN.md 5 C16"),
    "C17": (BFS + " on fixed-income trees with notional / accrual / additive-index oracles; exhaustive FI backtests", "Every reachable state of the bounded op space on the fixed-income trees F1 (five security kinds) and F2 (FI child strategy) is checked for notional, notional weights, coupon and holding-cost accrual and payment timing, the additive index and Rebalance-to-notional; FI backtests check the index on every date and RenormalizedFixedIncomeResult.", "Bounds: 27-op alphabet depth 3 (quick) / 4, coupon and asymmetric carry tables, spreads, commissions, multipliers, a zero-mark variant.", "DESIGN.md 5 C17"),
    "C18": ("exhaustive run family (incl. runs with negative root value); every report recomputed from node histories; transaction round trip", "For every finished run of the bounded family each report (weights, security weights, positions, transactions, turnover, HHI, Result prices) is recomputed from the recorded node histories, and get_transactions() is replayed through ReplayTransactions.", "Round trip compares positions always, values on flat trees without flows.", "DESIGN.md 5 C18"),
    "C19": ("exhaustive enumeration of tree construction recipes (<= 3 levels) with a structure walker; lazy/eager/undeclared run triples; shared-node cases", "Every recipe (children as node / string / lazy node / dict entry / parent= attachment, duplicates included) is built on the real classes and walked; universe columns, settings pushed from the root and lazily created children are checked after set-up; every flat run of the family is executed in its lazy, eager and undeclared variant and compared.", "Lazy vs eager bit-for-bit with integer positions on the exact alphabet, 1e-9 otherwise.", "DESIGN.md 5 C19"),
    "C20": ("exhaustive product: trees x multipliers x positions x unit-risk tables x history depth; hedge instrument sets; all close/roll date assignments in real backtests; chained / converging / swapping rolls x child order x table order x maturity dates stepped by hand", "Risk aggregation is recomputed independently for every node and date of every case; after HedgeRisks the residual risk must be zero (square) or least-squares minimal; every assignment of close / roll dates to two securities is run in a backtest and positions / selections after the dates are checked.", "Missing unit-risk column = 0; one measure's table may carry extra history.", "DESIGN.md 5 C20"),
}

PENDING = "check not built yet in this session (work in progress, see DESIGN.md section 5)"


def main():
    props = [json.loads(l) for l in open(os.path.join(ROOT, "properties.jsonl"))]
    checks = []
    na = []
    for p in props:
        pid = p["id"]
        if pid in CLAIMED:
            tech, text, note, ref = CLAIMED[pid]
            checks.append(
                {
                    "property_id": pid,
                    "quick_cmd": "/venv/bin/python -m btmc.check %s --tier quick" % pid,
                    "thorough_cmd": "/venv/bin/python -m btmc.check %s --tier thorough" % pid,
                    "evidence_file": "/verif/evidence/%s.json" % pid,
                    "replay_cmd_template": "/venv/bin/python -m btmc.replay {path}",
                    "engine": "btmc",
                    "level_claimed": {"category": "model_checking", "text": text, "design_ref": ref},
                    "level_note": note,
                    "technique": tech,
                }
            )
        else:
            na.append({"property_id": pid, "reason": PENDING})
    m = {
        "version": 1,
        "setup_cmd": "/venv/bin/python -m btmc.selftest",
        "hooks": {
            "guard": "BT_VERIF",
            "enable": "no hooks in /repo are needed: every seam is public API or Python-level spying; checks copy bt/*.py from /repo's working tree into a scratch dir (interpreted) and cythonize core.py there (compiled)",
            "baseline_off_cmd": "cd /repo && /venv/bin/python -m pytest -ra -q -p no:cacheprovider --timeout=900 --continue-on-collection-errors",
            "source_commits": [],
            "add_only": True,
        },
        "engines": [
            {
                "name": "btmc",
                "path": "/verif/btmc",
                "serves_properties": sorted(CLAIMED),
                "kind_free_text": "hand-written explicit-state / bounded-exhaustive explorer driving the real bt implementation (BFS with state hashing, Cartesian products, deviation placement, interleavings) with pure-Python reference oracles",
            }
        ],
        "checks": checks,
        "not_applicable": na,
        "notes": "All checks: cwd=/verif, run with /venv/bin/python, rebuild bt from /repo's current working tree into a scratch directory on every invocation (BTMC_SRC overrides the source root for mutation testing). Known findings: /verif/known_findings.json.",
    }
    with open(os.path.join(ROOT, "MANIFEST.json"), "w") as f:
        json.dump(m, f, indent=1)
    print("claimed", len(checks), "not_applicable", len(na))


if __name__ == "__main__":
    main()
