#!/venv/bin/python
"""Rebuild DESIGN.md section 14 from /verif/seeded/*/meta.json."""
import glob, json, os, re
ROOT = os.path.dirname(os.path.dirname(os.path.abspath(__file__)))
rows = []
for d in sorted(glob.glob(os.path.join(ROOT, "seeded", "*"))):
    mp = os.path.join(d, "meta.json")
    if not os.path.exists(mp):
        continue
    m = json.load(open(mp))
    needs = (m.get("needs") or "").strip().splitlines()
    first = needs[0] if needs else ""
    first = re.sub(r"\s+", " ", first)[:150]
    det = []
    for c, r in sorted(m.get("checks_quick", {}).items()):
        if r["exit"] == 1:
            rules = ""
            if r.get("summary"):
                mm = re.search(r"\[(.*)\]", r["summary"][0])
                rules = " (" + mm.group(1) + ")" if mm else ""
            det.append(c + rules)
        else:
            det.append(c + ": not detected (exit %d)" % r["exit"])
    rows.append("| %s | %s | %s | %s |" % (m["id"], m["property"], first.replace("|", "/"), "; ".join(det).replace("|", "/")))
out = ["## 14. [built] Seeded changes and which checks detect them", "",
       "Written by sub-agents that saw only the property text and a scratch worktree (nothing from /verif);",
       "each was confirmed here before it was kept: the demonstration passes on the clean worktree, and with",
       "the patch applied the whole 157-test suite still passes and the demonstration fails (`tools/confirm_seed.py`;",
       "commands and outcomes are in each `seeded/<id>/meta.json`). The last column is the verdict of the named",
       "quick checks run against the patched sources (`BTMC_SRC`): exit 1 with a VIOLATION line = detected.", "",
       "| seed | property | what it is (first line of the author's note) | quick checks against it |",
       "|------|----------|-----------------------------------------------|-------------------------|"] + rows + [""]
p = os.path.join(ROOT, "DESIGN.md")
s = open(p).read()
a = s.find("## 14. [built]")
b = s.find("## Appendix A")
block = "\n".join(out) + "\n" + open(os.path.join(ROOT, "notes", "seed_notes.md")).read() + "\n" if os.path.exists(os.path.join(ROOT, "notes", "seed_notes.md")) else "\n".join(out) + "\n"
if a >= 0:
    s = s[:a] + block + s[b:]
else:
    s = s[:b] + block + s[b:]
open(p, "w").write(s)
print(len(rows), "seeds")
