#!/venv/bin/python
"""Authoring-time only.  tools/gen_witnesses.py PROP SIGPREFIX FILE [--thorough]
Truncates FILE, runs the check over seeds 0..9 (quick) [and thorough], collects the signatures
(input + exact observed outcome) of the violations it reports on the CURRENT tree that start
with SIGPREFIX, writes them to FILE and lists everything else it saw."""
import collections, json, os, subprocess, sys
prop, prefix, path = sys.argv[1:4]
thorough = "--thorough" in sys.argv
full = os.path.join("/verif", path)
os.makedirs(os.path.dirname(full), exist_ok=True)
open(full, "w").close()
sigs = set(); other = collections.Counter()
runs = [("quick", s) for s in range(10)] + ([("thorough", 0)] if thorough else [])
for tier, seed in runs:
    tmp = "/tmp/sigs-%s.txt" % prop
    if os.path.exists(tmp): os.remove(tmp)
    r = subprocess.run(["/venv/bin/python", "-m", "btmc.check", prop, "--tier", tier, "--seed", str(seed)], cwd="/verif", capture_output=True, text=True, env=dict(os.environ, BTMC_DUMP_SIGS=tmp))
    print(tier, seed, r.stdout.strip().splitlines()[-1], flush=True)
    if os.path.exists(tmp):
        for l in open(tmp):
            d = json.loads(l)
            if d["sig"] and any(d["sig"].startswith(px) for px in prefix.split(",")): sigs.add(d["sig"])
            else: other[(d["rule"], (d["sig"] or "")[:60])] += 1
        os.remove(tmp)
open(full, "w").write("\n".join(sorted(sigs)) + "\n")
print(len(sigs), "witnesses ->", path)
for k, v in other.most_common(20): print("OTHER", v, k)
