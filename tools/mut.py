#!/venv/bin/python
"""Apply a named textual mutant (or a patch file) to a scratch copy of /repo/bt and
run checks against it via BTMC_SRC.   tools/mut.py <mutant|path.diff> C01 [C02 ...] [--tier quick]"""
import os
import shutil
import subprocess
import sys
import tempfile

M = {
    "adjust_no_stale": ("core.py", "        if update:\n            # indicates that data is now stale and must\n            # be updated before access\n            self.root.stale = True\n", "        if update:\n            pass\n"),
    "fee_not_charged": ("core.py", "self.parent.adjust(-full_outlay, update=update, flow=False, fee=fee)", "self.parent.adjust(-outlay, update=update, flow=False, fee=fee)"),
    "trade_is_flow": ("core.py", "self.parent.adjust(-full_outlay, update=update, flow=False, fee=fee)", "self.parent.adjust(-full_outlay, update=update, flow=True, fee=fee)"),
    "fee_no_reset": ("core.py", "            self._last_fee = 0.0\n            newpt = True", "            newpt = True"),
    "outlay_not_cleared": ("core.py", "            # reset outlay back to 0\n            self._outlay = 0\n", ""),
    "flows_no_reset": ("core.py", "        elif date != self.now:\n            self._net_flows = 0\n", "        elif date != self.now:\n"),
    "needupdate_early": ("core.py", "        if is_zero(self._weight) and is_zero(self._position):\n            self._needupdate = False", "        if is_zero(self._position):\n            self._needupdate = False"),
    "no_multiplier_value": ("core.py", "            self._value = self._position * self._price * self.multiplier\n", "            self._value = self._position * self._price\n"),
    "close_only_long": ("core.py", "            if c.value != 0.0 and not np.isnan(c.value):\n                c.allocate(-c.value, update=update)", "            if c.value > 0.0 and not np.isnan(c.value):\n                c.allocate(-c.value, update=update)"),
    "spread_not_in_outlay": ("core.py", "        outlay = q * self._price * self.multiplier + bidoffer\n", "        outlay = q * self._price * self.multiplier\n"),
    "child_not_credited": ("core.py", "            # adjust self's capital\n            self.adjust(amount, update=False, flow=True)", "            # adjust self's capital\n            self.adjust(amount, update=False, flow=False)"),
    "base_uses_value": ("core.py", "                bottom = self._last_value + self._net_flows\n", "                bottom = self._value + self._net_flows\n"),
    "or_shortcircuit": ("algos.py", "            tempRes = algo(target)\n            res = res | tempRes\n", "            res = res or algo(target)\n"),
    "hasdata_gt": ("algos.py", "        cnt = cnt[cnt >= self.min_count]", "        cnt = cnt[cnt > self.min_count]"),
    "selectn_round": ("algos.py", "            keep_n = int(self.n * len(stat))", "            keep_n = int(round(self.n * len(stat)))"),
    "selectall_ge": ("algos.py", "                target.temp[\"selected\"] = list(universe[universe > 0].index)\n        return True\n\n\nclass SelectThese", "                target.temp[\"selected\"] = list(universe[universe >= 0].index)\n        return True\n\n\nclass SelectThese"),
    "totalreturn_end_now": ("algos.py", "        prc = target.universe.loc[t0 - self.lookback : t0, selected]\n        target.temp[\"stat\"] = prc.calc_total_return()", "        prc = target.universe.loc[t0 - self.lookback :, selected]\n        target.temp[\"stat\"] = prc.calc_total_return()"),
    "universe_unsliced": ("core.py", "            self._funiverse = self._universe.loc[: self.now]\n", "            self._funiverse = self._universe\n"),
    "invvol_window_now": ("algos.py", "        prc = target.universe.loc[t0 - self.lookback : t0, selected]\n        tw = bt.ffn.calc_inv_vol_weights(prc.to_returns().dropna())", "        prc = target.universe.loc[t0 - self.lookback :, selected]\n        tw = bt.ffn.calc_inv_vol_weights(prc.to_returns().dropna())"),
    "coupon_next_row": ("core.py", "        coupon = self._coupons.values[inow]\n", "        coupon = self._coupons.values[min(inow + 1, len(self._coupons.values) - 1)]\n"),
    "paper_checks_root_bankrupt": ("core.py", "                if not self._paper.bankrupt:\n", "                if not self.root.bankrupt:\n"),
    "paper_half_notional": ("core.py", "            paper.adjust(self._paper_amount)", "            paper.adjust(self._paper_amount / 2)"),
    "paper_every_update": ("core.py", "        if self._paper_trade:\n            if newpt:\n", "        if self._paper_trade:\n            if True:\n"),
    "no_template_copy": ("backtest.py", "        self.strategy = deepcopy(strategy)\n", "        self.strategy = deepcopy(strategy) if strategy.children else strategy\n"),
    "has_run_not_set": ("backtest.py", "        self.has_run = True\n", "        self.has_run = False\n"),
    "pre_f01": ("core.py", "def _w(series):", "def _w(series):\n    return series.values\n\n\ndef _w_orig(series):"),
}


def main():
    args = [a for a in sys.argv[1:] if not a.startswith("--")]
    tier = "quick"
    if "--tier" in sys.argv:
        tier = sys.argv[sys.argv.index("--tier") + 1]
        args.remove(tier)
    name, checks = args[0], args[1:]
    d = tempfile.mkdtemp(prefix="mut-")
    try:
        shutil.copytree("/repo/bt", os.path.join(d, "bt"), ignore=shutil.ignore_patterns("*.so", "*.c", "__pycache__"))
        if os.path.exists(name):
            r = subprocess.run(["patch", "-p1", "-s", "-i", os.path.abspath(name)], cwd=d)
            assert r.returncode == 0
        else:
            f, old, new = M[name]
            p = os.path.join(d, "bt", f)
            s = open(p).read()
            assert s.count(old) == 1, (name, s.count(old))
            open(p, "w").write(s.replace(old, new))
        env = dict(os.environ, BTMC_SRC=d)
        for c in checks:
            r = subprocess.run(["/venv/bin/python", "-m", "btmc.check", c, "--tier", tier], cwd="/verif", env=env, capture_output=True, text=True)
            lines = r.stdout.strip().splitlines()
            print("== %s vs %s: exit %d" % (name, c, r.returncode))
            for ln in lines[-6:]:
                print("   ", ln[:300])
            if r.returncode == 2:
                print(r.stderr[-1500:])
    finally:
        shutil.rmtree(d, ignore_errors=True)


if __name__ == "__main__":
    main()
