#!/venv/bin/python
"""Re-run the quick checks named in each seeded/<id>/meta.json against that seed's patch
(applied to a scratch copy of /repo's bt/, via BTMC_SRC) and refresh the recorded verdicts.
    tools/recheck_seeds.py [ID ...]"""
import glob, json, os, shutil, subprocess, sys, tempfile
ROOT = "/verif"
own_only = "--own" in sys.argv  # only the seed's own property check (the other recorded verdicts are kept)
ids = [a for a in sys.argv[1:] if not a.startswith("--")]
for d in sorted(glob.glob(os.path.join(ROOT, "seeded", "*"))):
    m = json.load(open(os.path.join(d, "meta.json")))
    if ids and m["id"] not in ids:
        continue
    tmp = tempfile.mkdtemp(prefix="seed-")
    try:
        shutil.copytree("/repo/bt", os.path.join(tmp, "bt"), ignore=shutil.ignore_patterns("*.so", "*.c", "__pycache__"))
        r = subprocess.run(["patch", "-p1", "-s", "-i", os.path.join(d, "patch.diff")], cwd=tmp, capture_output=True, text=True)
        if r.returncode != 0:
            print(m["id"], "PATCH DOES NOT APPLY", r.stdout[-200:])
            continue
        checks = [m["property"]] if own_only else sorted(set(list(m.get("checks_quick", {}).keys()) + [m["property"]]))
        out = dict(m.get("checks_quick", {})) if own_only else {}
        for c in checks:
            r = subprocess.run(["/venv/bin/python", "-m", "btmc.check", c, "--tier", "quick"], cwd=ROOT, env=dict(os.environ, BTMC_SRC=tmp), capture_output=True, text=True)
            summ = [ln for ln in r.stdout.splitlines() if "violation(s)" in ln]
            out[c] = {"exit": r.returncode, "summary": summ[-1:]}
        m["checks_quick"] = out
        m["rechecked_at_repo_commit"] = subprocess.run(["git", "-C", "/repo", "rev-parse", "--short", "HEAD"], capture_output=True, text=True).stdout.strip()
        json.dump(m, open(os.path.join(d, "meta.json"), "w"), indent=1)
        print(m["id"], {c: v["exit"] for c, v in out.items()}, flush=True)
    finally:
        shutil.rmtree(tmp, ignore_errors=True)
